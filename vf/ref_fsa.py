"""Reference models for weighted automata / transducers / graphs.

A machine is read as plain data straight from the object's dictionaries:
  start: {q: w}, stop: {q: w}, arcs: [(i, label, j, w)]  (zero weights dropped)

R4   paths()            all accepting paths of degree <= D over Poly, grouped by label
R4b  fsa_weight / fst_weight   fixed-point evaluation of one string (pair) on ANY machine, any semiring
R5   exact rational linear algebra: inverse, closure, equivalence, Hankel rank
"""
from fractions import Fraction

from vf.semirings import Poly

EPS = ""


class Diverges(Exception):
    pass


def machine_data(m):
    R = m.R
    start = {q: w for q, w in m.start.items() if w != R.zero}
    stop = {q: w for q, w in m.stop.items() if w != R.zero}
    arcs = []
    for i, d in m.delta.items():
        for a, T in d.items():
            for j, w in T.items():
                if w != R.zero:
                    arcs.append((i, a, j, w))
    return start, stop, arcs


# ---------------------------------------------------------------------------
# R4: path enumeration (Poly weights of degree >= 1 on every arc)


def paths(data, fst=False, maxlen=60, zero=None):
    """{label: Poly}; label = string (tuple) or (input tuple, output tuple), epsilons erased."""
    start, stop, arcs = data
    out = {}
    by = {}
    ZERO = Poly.zero if zero is None else zero
    for i, a, j, w in arcs:
        by.setdefault(i, []).append((a, j, w))

    def rec(q, lab, w, n):
        if n > maxlen:
            raise Diverges("path enumeration exceeds the length cap (degree-0 cycle?)")
        f = stop.get(q)
        if f is not None:
            ww = w * f
            if ww != ZERO:
                out[lab] = out[lab] + ww if lab in out else ww
        for a, j, aw in by.get(q, ()):
            w2 = w * aw
            if w2 == ZERO:
                continue
            if fst:
                l2 = (lab[0] + ((a[0],) if a[0] != EPS else ()), lab[1] + ((a[1],) if a[1] != EPS else ()))
            else:
                l2 = lab + ((a,) if a != EPS else ())
            rec(j, l2, w2, n + 1)

    for q, w in start.items():
        rec(q, ((), ()) if fst else (), w, 0)
    return out


# ---------------------------------------------------------------------------
# R4b: fixed-point evaluation, generic semiring


def _fix(nodes_init, step, R, tol, maxit):
    """Least fixed point of  val = init + step(val)  by Kleene (Jacobi) iteration."""
    val = dict(nodes_init)
    for _ in range(maxit):
        new = dict(nodes_init)
        for k, v in step(val).items():
            new[k] = new[k] + v if k in new else v
        keys = set(new) | set(val)
        if tol == 0:
            done = all(new.get(k, R.zero) == val.get(k, R.zero) for k in keys)
        else:
            done = all(R.metric(new.get(k, R.zero), val.get(k, R.zero)) <= tol for k in keys)
        val = new
        if done:
            return val
    raise Diverges("fixed point does not stabilise")


def fsa_weight(data, x, R, tol=0, maxit=200):
    start, stop, arcs = data
    n = len(x)

    def step(val):
        out = {}
        for i, a, j, w in arcs:
            for pos in range(n + 1):
                v = val.get((i, pos))
                if v is None or v == R.zero:
                    continue
                if a == EPS:
                    k = (j, pos)
                elif pos < n and x[pos] == a:
                    k = (j, pos + 1)
                else:
                    continue
                c = v * w
                if c == R.zero:
                    continue
                out[k] = out[k] + c if k in out else c
        return out

    val = _fix({(q, 0): w for q, w in start.items()}, step, R, tol, maxit)
    tot = R.zero
    for q, f in stop.items():
        v = val.get((q, n))
        if v is not None:
            tot = tot + v * f
    return tot


def fst_weight(data, x, y, R, tol=0, maxit=200):
    start, stop, arcs = data
    n, m = len(x), len(y)

    def step(val):
        out = {}
        for i, (a, b), j, w in arcs:
            for p in range(n + 1):
                if a != EPS and not (p < n and x[p] == a):
                    continue
                for r in range(m + 1):
                    v = val.get((i, p, r))
                    if v is None or v == R.zero:
                        continue
                    if b != EPS and not (r < m and y[r] == b):
                        continue
                    k = (j, p + (a != EPS), r + (b != EPS))
                    c = v * w
                    if c == R.zero:
                        continue
                    out[k] = out[k] + c if k in out else c
        return out

    val = _fix({(q, 0, 0): w for q, w in start.items()}, step, R, tol, maxit)
    tot = R.zero
    for q, f in stop.items():
        v = val.get((q, n, m))
        if v is not None:
            tot = tot + v * f
    return tot


def total_weight_fix(data, R, tol=0, maxit=400):
    start, stop, arcs = data

    def step(val):
        out = {}
        for i, a, j, w in arcs:
            v = val.get(i)
            if v is None or v == R.zero:
                continue
            c = v * w
            if c == R.zero:
                continue
            out[j] = out[j] + c if j in out else c
        return out

    val = _fix(dict(start), step, R, tol, maxit)
    tot = R.zero
    for q, f in stop.items():
        v = val.get(q)
        if v is not None:
            tot = tot + v * f
    return tot


# ---------------------------------------------------------------------------
# R5: exact rational linear algebra (own Gaussian elimination on Fractions)


def mat_inv(M):
    """Inverse of a square Fraction matrix (list of lists) or None if singular."""
    n = len(M)
    A = [list(map(Fraction, row)) + [Fraction(int(i == j)) for j in range(n)] for i, row in enumerate(M)]
    for c in range(n):
        piv = next((r for r in range(c, n) if A[r][c] != 0), None)
        if piv is None:
            return None
        A[c], A[piv] = A[piv], A[c]
        p = A[c][c]
        A[c] = [v / p for v in A[c]]
        for r in range(n):
            if r != c and A[r][c] != 0:
                f = A[r][c]
                A[r] = [vr - f * vc for vr, vc in zip(A[r], A[c])]
    return [row[n:] for row in A]


def rank(M):
    A = [list(map(Fraction, row)) for row in M]
    r = 0
    rows = len(A)
    cols = len(A[0]) if A else 0
    for c in range(cols):
        piv = next((i for i in range(r, rows) if A[i][c] != 0), None)
        if piv is None:
            continue
        A[r], A[piv] = A[piv], A[r]
        p = A[r][c]
        A[r] = [v / p for v in A[r]]
        for i in range(rows):
            if i != r and A[i][c] != 0:
                f = A[i][c]
                A[i] = [vi - f * vr for vi, vr in zip(A[i], A[r])]
        r += 1
        if r == rows:
            break
    return r


def closure_exact(nodes, E):
    """(I - E)^{-1} for E: {(i,j): Fraction}; returns {(i,j): Fraction} or None (divergent)."""
    nodes = list(nodes)
    idx = {q: k for k, q in enumerate(nodes)}
    n = len(nodes)
    M = [[Fraction(int(i == j)) - Fraction(E.get((nodes[i], nodes[j]), 0)) for j in range(n)] for i in range(n)]
    inv = mat_inv(M)
    if inv is None:
        return None
    return {(nodes[i], nodes[j]): inv[i][j] for i in range(n) for j in range(n) if inv[i][j] != 0}


def spectral_ok(nodes, E, iters=200):
    """Crude convergence test for sum_k E^k with non-negative entries: powers go to zero."""
    nodes = list(nodes)
    v = {q: 1.0 for q in nodes}
    for _ in range(iters):
        nv = {q: 0.0 for q in nodes}
        for (i, j), w in E.items():
            nv[j] += v[i] * abs(float(w))
        v = nv
        if max(v.values(), default=0.0) < 1e-12:
            return True
        if max(v.values(), default=0.0) > 1e12:
            return False
    return max(v.values(), default=0.0) < 1e-6


def to_matrices(data, f=Fraction):
    """Epsilon-free matrix form (start, {a: M}, stop, states) with exact epsilon closure.
    Weights are converted by f (e.g. Fraction, or lambda q: q.score for Q)."""
    start, stop, arcs = data
    states = sorted({q for q in start} | {q for q in stop} | {i for i, _, _, _ in arcs} | {j for _, _, j, _ in arcs}, key=repr)
    idx = {q: k for k, q in enumerate(states)}
    n = len(states)
    E = {}
    for i, a, j, w in arcs:
        if a == EPS:
            E[(i, j)] = E.get((i, j), 0) + f(w)
    C = closure_exact(states, E)
    if C is None or not spectral_ok(states, E):
        raise Diverges("epsilon closure diverges")
    Cm = [[C.get((states[i], states[j]), Fraction(0)) for j in range(n)] for i in range(n)]
    s0 = [Fraction(0)] * n
    for q, w in start.items():
        s0[idx[q]] += f(w)
    s = [sum(s0[i] * Cm[i][j] for i in range(n)) for j in range(n)]
    mats = {}
    for i, a, j, w in arcs:
        if a == EPS:
            continue
        M = mats.setdefault(a, [[Fraction(0)] * n for _ in range(n)])
        for k in range(n):
            if Cm[idx[j]][k] != 0:
                M[idx[i]][k] += f(w) * Cm[idx[j]][k]
    t = [Fraction(0)] * n
    for q, w in stop.items():
        t[idx[q]] += f(w)
    return s, mats, t, states


def vecmat(v, M):
    n = len(M)
    return [sum(v[i] * M[i][j] for i in range(n) if v[i] != 0) for j in range(len(M[0]) if M else 0)]


def mat_weight(mf, x):
    s, mats, t, _ = mf
    v = s
    for a in x:
        M = mats.get(a)
        if M is None:
            return Fraction(0)
        v = vecmat(v, M)
    return sum(vi * ti for vi, ti in zip(v, t))


def equivalent_exact(mfA, mfB):
    """None iff A(w) == B(w) for ALL words (Schuetzenberger/Tzeng forward-basis search in
    exact arithmetic on the difference automaton); otherwise a shortest-found witness word."""
    sA, mA, tA, _ = mfA
    sB, mB, tB, _ = mfB
    na, nb = len(sA), len(sB)
    alphabet = sorted(set(mA) | set(mB), key=repr)
    start = list(sA) + [-v for v in sB]
    stop = list(tA) + list(tB)

    def step(v, a):
        va = vecmat(v[:na], mA[a]) if a in mA and na else [Fraction(0)] * na
        vb = vecmat(v[na:], mB[a]) if a in mB and nb else [Fraction(0)] * nb
        return va + vb

    basis = []  # row-echelon list of (vector, pivot index)

    def reduce(v):
        v = list(v)
        for b, p in basis:
            if v[p] != 0:
                f = v[p] / b[p]
                v = [x - f * y for x, y in zip(v, b)]
        return v

    from collections import deque

    queue = deque([((), start)])
    while queue:
        w, v = queue.popleft()
        if sum(x * y for x, y in zip(v, stop)) != 0:
            return w
        r = reduce(v)
        p = next((i for i, x in enumerate(r) if x != 0), None)
        if p is None:
            continue
        basis.append((r, p))
        for a in alphabet:
            queue.append((w + (a,), step(v, a)))
    return None


def hankel_rank(mf, alphabet, n):
    """Rank of H[u,v] = A(uv) over all words |u|,|v| <= n, computed literally."""
    import itertools

    words = [w for k in range(n + 1) for w in itertools.product(sorted(alphabet, key=repr), repeat=k)]
    H = [[mat_weight(mf, u + v) for v in words] for u in words]
    return rank(H) if H else 0
