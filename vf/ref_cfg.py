"""Reference models for weighted context-free grammars (boring on purpose).

A grammar is given as plain data: ``rules`` = list of (w, head, body) with body a
tuple of symbols, ``V`` = set of terminals, ``S`` = start symbol.

R1  enum_derivs      leftmost-derivation enumeration with <= D rule uses (Poly)
R2  ref_chart / ref_weight / ref_totals / ref_prefix_weight
                     naive Kleene fixed points on the *untransformed* grammar,
                     any semiring (exact stabilisation or tolerance)
R3  productive / member / viable_prefix   Boolean set-based oracle
"""
from vf.semirings import Poly


class NoConvergence(Exception):
    pass


def rules_of(g):
    return [(r.w, r.head, tuple(r.body)) for r in g.rules]


# ---------------------------------------------------------------------------
# R1: derivation enumerator


def enum_derivs(rules, S, V, D, var_of=None):
    """rules: list of (head, body); rule i carries the indeterminate x_i
    (x_{var_of[i]} if given: identical rules may share one indeterminate).
    Returns {yield tuple: Poly}: coefficient of a monomial = number of leftmost
    derivations (= derivation trees) from S using exactly that multiset of rules,
    for all derivations with at most D rule applications."""
    out = {}
    byhead = {}
    for i, (h, b) in enumerate(rules):
        byhead.setdefault(h, []).append((i, tuple(b)))

    def rec(form, used):
        for k, s in enumerate(form):
            if s not in V:
                break
        else:
            t = out.setdefault(form, {})
            m = tuple(sorted(used))
            t[m] = t.get(m, 0) + 1
            return
        if len(used) >= D:
            return
        for i, b in byhead.get(s, ()):
            rec(form[:k] + b + form[k + 1 :], used + (i if var_of is None else var_of[i],))

    rec((S,), ())
    return {y: Poly(t) for y, t in out.items()}


def table_total(table):
    tot = Poly.zero
    for p in table.values():
        tot = tot + p
    return tot


def table_prefix(table, p):
    p = tuple(p)
    n = len(p)
    tot = Poly.zero
    for y, w in table.items():
        if y[:n] == p:
            tot = tot + w
    return tot


# ---------------------------------------------------------------------------
# R2: naive fixed points, generic semiring


def _close(a, b, R, tol):
    if tol == 0:
        return a == b
    return R.metric(a, b) <= tol


def ref_chart(rules, V, R, x, maxit=400, tol=0):
    """val[(X,i,j)] = total weight of X =>* x[i:j]; Kleene iteration (Jacobi)."""
    n = len(x)
    zero, one = R.zero, R.one
    val = {}

    def get(X, i, j):
        if X in V:
            return one if (j == i + 1 and x[i] == X) else zero
        return val.get((X, i, j), zero)

    def seq(body, i, j):
        if not body:
            return one if i == j else zero
        if len(body) == 1:
            return get(body[0], i, j)
        tot = zero
        first = body[0]
        rest = body[1:]
        for k in range(i, j + 1):
            l = get(first, i, k)
            if l == zero:
                continue
            r = seq(rest, k, j)
            if r == zero:
                continue
            tot = tot + l * r
        return tot

    for _ in range(maxit):
        new = {}
        for w, h, b in rules:
            for i in range(n + 1):
                for j in range(i, n + 1):
                    v = seq(b, i, j)
                    if v == zero:
                        continue
                    k = (h, i, j)
                    new[k] = new[k] + w * v if k in new else w * v
        done = all(
            _close(new.get(k, zero), val.get(k, zero), R, tol) for k in set(new) | set(val)
        )
        val = new
        if done:
            return val
    raise NoConvergence("ref_chart")


def ref_weight(rules, S, V, R, x, **kw):
    x = tuple(x)
    return ref_chart(rules, V, R, x, **kw).get((S, 0, len(x)), R.zero)


def ref_totals(rules, V, R, maxit=2000, tol=0):
    """Least solution of the grammar equations (total weight per nonterminal)."""
    zero, one = R.zero, R.one
    val = {}
    for _ in range(maxit):
        new = {}
        for w, h, b in rules:
            v = w
            for y in b:
                if y in V:
                    continue
                u = val.get(y, zero)
                if u == zero:
                    v = zero
                    break
                v = v * u
            if v == zero:
                continue
            new[h] = new[h] + v if h in new else v
        done = all(
            _close(new.get(k, zero), val.get(k, zero), R, tol) for k in set(new) | set(val)
        )
        val = new
        if done:
            return val
    raise NoConvergence("ref_totals")


def ref_prefix_weight(rules, S, V, R, p, maxit=2000, tol=0, totals=None):
    """Total weight of all strings of the language that begin with p.

    Unique decomposition of a derivation of p.y by the body symbol in which the
    *last* token of p falls: symbols before it derive exactly a segment of p,
    the symbol itself covers through position n-1, symbols after it derive
    anything (their total weight)."""
    p = tuple(p)
    n = len(p)
    zero, one = R.zero, R.one
    if totals is None:
        totals = ref_totals(rules, V, R, maxit=maxit, tol=tol)
    if n == 0:
        return totals.get(S, zero)
    full = ref_chart(rules, V, R, p, maxit=maxit, tol=tol)

    def tot(y):
        return one if y in V else totals.get(y, zero)

    def fullsym(y, i, k):
        if y in V:
            return one if (k == i + 1 and p[i] == y) else zero
        return full.get((y, i, k), zero)

    def seqfull(body, i, j):
        if not body:
            return one if i == j else zero
        t = zero
        for k in range(i, j + 1):
            l = fullsym(body[0], i, k)
            if l == zero:
                continue
            r = seqfull(body[1:], k, j)
            if r == zero:
                continue
            t = t + l * r
        return t

    pre = {}

    def presym(y, j):
        if y in V:
            return one if (j == n - 1 and p[j] == y) else zero
        return pre.get((y, j), zero)

    for _ in range(maxit):
        new = {}
        for w, h, b in rules:
            for i in range(n):
                acc = zero
                for m in range(len(b)):
                    tail = one
                    for y in b[m + 1 :]:
                        tail = tail * tot(y)
                    if tail == zero:
                        continue
                    for j in range(i, n):
                        l = seqfull(b[:m], i, j)
                        if l == zero:
                            continue
                        c = presym(b[m], j)
                        if c == zero:
                            continue
                        acc = acc + l * c * tail
                if acc == zero:
                    continue
                k = (h, i)
                new[k] = new[k] + w * acc if k in new else w * acc
        done = all(
            _close(new.get(k, zero), pre.get(k, zero), R, tol) for k in set(new) | set(pre)
        )
        pre = new
        if done:
            return pre.get((S, 0), zero)
    raise NoConvergence("ref_prefix_weight")


# ---------------------------------------------------------------------------
# R3: Boolean set-based oracle (independent of R2's code path)


def productive(rules, V):
    """rules: iterable of (head, body)."""
    P = set(V)
    ch = True
    while ch:
        ch = False
        for h, b in rules:
            if h not in P and all(y in P for y in b):
                P.add(h)
                ch = True
    return P


def reachable(rules, S):
    T = {S}
    ch = True
    while ch:
        ch = False
        for h, b in rules:
            if h in T:
                for y in b:
                    if y not in T:
                        T.add(y)
                        ch = True
    return T


def member_table(rules, V, p):
    n = len(p)
    full = set()

    def seq(body, i, j):
        if not body:
            return i == j
        y = body[0]
        for k in range(i, j + 1):
            ok = (y in V and k == i + 1 and p[i] == y) or ((y, i, k) in full)
            if ok and seq(body[1:], k, j):
                return True
        return False

    ch = True
    while ch:
        ch = False
        for h, b in rules:
            for i in range(n + 1):
                for j in range(i, n + 1):
                    if (h, i, j) not in full and seq(b, i, j):
                        full.add((h, i, j))
                        ch = True
    return full


def member(rules, S, V, x):
    x = tuple(x)
    return (S, 0, len(x)) in member_table(rules, V, x)


def viable_prefix(rules, S, V, p):
    """exists w: p.w in L(S)."""
    p = tuple(p)
    n = len(p)
    P = productive(rules, V)
    if n == 0:
        return S in P
    full = member_table(rules, V, p)
    pre = set()

    def fullsym(y, i, k):
        return (y in V and k == i + 1 and p[i] == y) or ((y, i, k) in full)

    def seqfull(body, i, j):
        if not body:
            return i == j
        for k in range(i, j + 1):
            if fullsym(body[0], i, k) and seqfull(body[1:], k, j):
                return True
        return False

    def presym(y, j):
        if y in V:
            return j == n - 1 and p[j] == y
        return (y, j) in pre

    ch = True
    while ch:
        ch = False
        for h, b in rules:
            for i in range(n):
                if (h, i) in pre:
                    continue
                ok = False
                for m in range(len(b)):
                    if not all(y in P for y in b[m + 1 :]):
                        continue
                    for j in range(i, n):
                        if seqfull(b[:m], i, j) and presym(b[m], j):
                            ok = True
                            break
                    if ok:
                        break
                if ok:
                    pre.add((h, i))
                    ch = True
    return (S, 0) in pre


def brute_language(rules, S, V, maxlen, maxsteps=200000):
    """Boolean language up to maxlen by exhaustive sentential-form search
    (forms longer than maxlen + slack in terminals are pruned)."""
    P = productive(rules, V)
    byhead = {}
    for h, b in rules:
        byhead.setdefault(h, []).append(tuple(b))
    # min yield length per symbol
    ml = {a: 1 for a in V}
    ch = True
    while ch:
        ch = False
        for h, b in rules:
            if all(y in ml for y in b):
                l = sum(ml[y] for y in b)
                if h not in ml or l < ml[h]:
                    ml[h] = l
                    ch = True
    seen = set()
    out = set()
    stack = [(S,)]
    steps = 0
    while stack:
        form = stack.pop()
        if form in seen:
            continue
        seen.add(form)
        steps += 1
        if steps > maxsteps:
            raise NoConvergence("brute_language")
        if any(s not in ml for s in form):
            continue
        if sum(ml[s] for s in form) > maxlen or len(form) > maxlen + 3:
            continue  # NB: the length cap makes this an under-approximation
        for k, s in enumerate(form):
            if s not in V:
                break
        else:
            out.add(form)
            continue
        for b in byhead.get(s, ()):
            stack.append(form[:k] + b + form[k + 1 :])
    return out


def enum_weighted(wrules, S, V, maxsteps=40, zero=None):
    """Leftmost-derivation enumeration carrying the actual (Poly) rule weights; a
    branch is pruned when its weight becomes zero (degree > D).  For grammars
    whose every cycle passes through a rule of degree >= 1 this yields the
    complete truncated series {yield: weight}.  Raises NoConvergence if a branch
    exceeds maxsteps (a degree-0 cycle)."""
    out = {}
    byhead = {}
    for w, h, b in wrules:
        byhead.setdefault(h, []).append((w, tuple(b)))
    zero = Poly.zero if zero is None else zero

    def rec(form, w, steps):
        for k, s in enumerate(form):
            if s not in V:
                break
        else:
            out[form] = out[form] + w if form in out else w
            return
        if steps >= maxsteps:
            raise NoConvergence("enum_weighted: derivation exceeds the step cap")
        for rw, b in byhead.get(s, ()):
            w2 = w * rw
            if w2 == zero:
                continue
            rec(form[:k] + b + form[k + 1 :], w2, steps + 1)

    rec((S,), Poly.one, 0)
    return {y: w for y, w in out.items() if w != zero}
