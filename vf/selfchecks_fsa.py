"""Cross-validation of the automata oracles: R4 path enumeration vs R4b fixed-point
evaluation (Poly), R5 exact matrices vs R4b (floats), exact equivalence vs enumeration."""
from fractions import Fraction

from vf import fsm
from vf.ref_fsa import Diverges, equivalent_exact, fsa_weight, fst_weight, hankel_rank, mat_weight, paths, to_matrices
from vf.semirings import Poly
from vf.spaces import bfs_machines, strings_upto

from genlm.grammar.semiring import Float


def run_all(verbose=False):
    Poly.D = 5
    bad = []
    ms, _ = bfs_machines(2, ["a", ""], 3)
    n = 0
    for ops in ms:
        W = fsm.poly_weights(len(ops))
        d = fsm.data(ops, W)
        tab = paths(d)
        for x in strings_upto(["a"], 3):
            n += 1
            if fsa_weight(d, x, Poly) != tab.get(x, Poly.zero):
                bad.append(("R4!=R4b", ops, x))
        FW = [fsm.FRAC[i % 8] for i in range(len(ops))]
        dq = fsm.data(ops, FW)
        try:
            mf = to_matrices(dq)
        except Diverges:
            continue
        df = fsm.data(ops, [float(w) for w in FW])
        for x in strings_upto(["a"], 3):
            a = float(mat_weight(mf, x))
            b = fsa_weight(df, x, Float, tol=1e-16, maxit=3000)
            if abs(a - b) > 1e-9 * max(1, abs(a)):
                bad.append(("R5!=R4b", ops, x, a, b))
        # equivalence: identical up to state renaming; different after a weight change on a live arc
        mf2 = to_matrices(fsm.data(ops, FW, names={0: "p", 1: "q"}))
        if equivalent_exact(mf, mf2) is not None:
            bad.append(("equiv(renamed) not None", ops))
        if not ops:
            continue
        FW3 = list(FW)
        FW3[-1] = FW3[-1] + 1
        try:
            mf3 = to_matrices(fsm.data(ops, FW3))
        except Diverges:
            continue
        w = equivalent_exact(mf, mf3)
        differs = any(mat_weight(mf, x) != mat_weight(mf3, x) for x in strings_upto(["a"], 5))
        if (w is None) == differs:
            bad.append(("equiv verdict != enumeration", ops, w))
        if w is not None and mat_weight(mf, w) == mat_weight(mf3, w):
            bad.append(("witness does not separate", ops, w))
    # FST evaluation vs path enumeration
    L = [("a", "a"), ("a", "b"), ("a", ""), ("", "a"), ("", "")]
    ts, _ = bfs_machines(1, L, 2)
    for ops in ts:
        d = fsm.data(ops, fsm.poly_weights(len(ops)))
        tab = paths(d, fst=True)
        for x in strings_upto(["a"], 2):
            for y in strings_upto(["a", "b"], 2):
                n += 1
                if fst_weight(d, x, y, Poly) != tab.get((x, y), Poly.zero):
                    bad.append(("fst R4!=R4b", ops, x, y))
    if verbose:
        print(f"fsa oracles: {len(ms)} automata + {len(ts)} transducers, {n} comparisons, {len(bad)} disagreements")
    return bad
