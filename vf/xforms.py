"""The grammar transformations offered as equivalence-preserving (C06/C07)."""
import itertools


def _names_pool(g):
    nts = set(g.N) | {y for r in g.rules for y in r.body if not g.is_terminal(y)}
    return sorted(nts, key=repr)


def transformations(g):
    """Yields (name, thunk) for every transformation and option applicable to g."""
    yield "trim", lambda: g.trim()
    yield "cotrim", lambda: g.cotrim()
    yield "binarize", lambda: g.binarize()
    yield "separate_start", lambda: g.separate_start()
    yield "separate_terminals", lambda: g.separate_terminals()
    for b in (True, False):
        for t in (True, False):
            yield f"nullaryremove(binarize={b},trim={t})", lambda b=b, t=t: g.nullaryremove(binarize=b, trim=t)
    yield "unaryremove", lambda: g.unaryremove()
    for t in (True, False):
        yield f"unarycycleremove(trim={t})", lambda t=t: g.unarycycleremove(trim=t)
    yield "cnf", lambda: g.cnf
    yield "renumber", lambda: g.renumber()
    nts = _names_pool(g)
    pool = ["X0", "X1", "X2", "X3", "X4", "X5"]
    if len(nts) <= 3:
        for img in itertools.permutations(pool[: max(3, len(nts))], len(nts)):
            m = dict(zip(nts, img))
            yield f"rename({m})", lambda m=m: g.rename(lambda x: m[x])
        # permutations of the existing names (a renamed symbol may take the old name of another one)
        for img in itertools.permutations(nts):
            if list(img) != nts:
                m = dict(zip(nts, img))
                yield f"rename({m})", lambda m=m: g.rename(lambda x: m[x])
        if len(nts) >= 1:
            m = {x: (nts[(i + 1) % len(nts)] if i + 1 < len(nts) else str(x) + "'") for i, x in enumerate(nts)}
            yield f"rename({m})", lambda m=m: g.rename(lambda x: m[x])
    else:
        m = dict(zip(nts, pool + [f"Y{i}" for i in range(len(nts))]))
        yield f"rename({m})", lambda m=m: g.rename(lambda x: m[x])
    for i, r in enumerate(g.rules):
        for k, y in enumerate(r.body):
            if g.is_nonterminal(y):
                yield f"unfold({i},{k})", lambda i=i, k=k: g.unfold(i, k)


CHAIN = [
    ("trim", lambda g: g.trim()),
    ("cotrim", lambda g: g.cotrim()),
    ("binarize", lambda g: g.binarize()),
    ("separate_start", lambda g: g.separate_start()),
    ("separate_terminals", lambda g: g.separate_terminals()),
    ("nullaryremove", lambda g: g.nullaryremove()),
    ("nullaryremove(binarize=False,trim=False)", lambda g: g.nullaryremove(binarize=False, trim=False)),
    ("unaryremove", lambda g: g.unaryremove()),
    ("unarycycleremove", lambda g: g.unarycycleremove()),
    ("unarycycleremove(trim=False)", lambda g: g.unarycycleremove(trim=False)),
    ("cnf", lambda g: g.cnf),
    ("renumber", lambda g: g.renumber()),
    ("unfold(0,first)", None),  # filled in dynamically
]


def chain_apply(name, fn, g):
    if name == "unfold(0,first)":
        for i, r in enumerate(g.rules):
            for k, y in enumerate(r.body):
                if g.is_nonterminal(y):
                    return g.unfold(i, k)
        return g
    return fn(g)
