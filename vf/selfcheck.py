"""Oracle self-check (conformance of the reference models with each other)."""
import sys


def main():
    from vf import selfchecks

    bad = selfchecks.run_all(verbose=True)
    if bad:
        print("SELF-CHECK FAILED:", bad)
        return 1
    print("self-check ok")
    return 0


if __name__ == "__main__":
    sys.exit(main())
