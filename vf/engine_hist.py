"""E3: explicit-state BFS over query histories on ONE live object.

A state is the event history that produced it; the object is rebuilt from
scratch and the history replayed (live parser objects rarely copy).  States are
deduplicated on a canonical dump of everything future answers could read.
Every transition's answer is compared with the answer of a fresh object.
"""
from collections import deque


def explore(make, ops, apply_op, dump, depth, same, invariant=None, max_states=20000):
    """make() -> obj;  apply_op(obj, op) -> answer;  dump(obj) -> hashable;
    same(a, b) -> bool;  invariant(obj) -> None or str (violation text).
    Returns dict(states, transitions, violations=[(history, op, have, want)], capped)."""
    fresh = {}
    for i, op in enumerate(ops):
        fresh[i] = apply_op(make(), op)
    init = make()
    seen = {dump(init)}
    frontier = deque([()])
    transitions = 0
    violations = []
    capped = False
    maxdepth = 0
    while frontier:
        hist = frontier.popleft()
        if len(hist) >= depth:
            continue
        for i, op in enumerate(ops):
            obj = make()
            for j in hist:
                apply_op(obj, ops[j])
            ans = apply_op(obj, op)
            transitions += 1
            if not same(ans, fresh[i]):
                violations.append((list(hist), i, ans, fresh[i]))
            if invariant is not None:
                msg = invariant(obj)
                if msg:
                    violations.append((list(hist), i, msg, "grammar unchanged"))
            k = dump(obj)
            if k not in seen:
                if len(seen) >= max_states:
                    capped = True
                    continue
                seen.add(k)
                frontier.append(hist + (i,))
                maxdepth = max(maxdepth, len(hist) + 1)
    return {"states": len(seen), "transitions": transitions, "violations": violations, "capped": capped, "max_depth": maxdepth}


def explore_interleaved(make, builders, queries, apply_builder, apply_query, same, depth, max_queries=2, invariant=None):
    """BFS over histories that INTERLEAVE builder operations (which change the
    object's value) with queries.  Oracle: every query's answer equals the answer
    of a fresh object that received the same builder operations and no earlier
    query.  A history is a tuple of ('b', i) / ('q', j).  States are not merged
    (a cache populated at different times has different futures); the space is
    bounded by `depth` and by at most `max_queries` queries per history.
    Returns dict(histories, transitions, violations=[(history, have, want)])."""
    fresh_cache = {}

    def fresh_answer(bseq, qj):
        k = (bseq, qj)
        if k not in fresh_cache:
            obj = make()
            for i in bseq:
                apply_builder(obj, builders[i])
            fresh_cache[k] = apply_query(obj, queries[qj])
        return fresh_cache[k]

    histories = 0
    transitions = 0
    violations = []
    frontier = deque([()])
    while frontier:
        hist = frontier.popleft()
        histories += 1
        if len(hist) >= depth:
            continue
        nq = sum(1 for k, _ in hist if k == "q")
        ops = [("b", i) for i in range(len(builders))]
        if nq < max_queries and hist:  # a query on the empty object is covered by fresh objects elsewhere
            ops += [("q", j) for j in range(len(queries))]
        for op in ops:
            if op[0] == "q" and hist and hist[-1] == op:
                continue  # the same query twice in a row adds nothing new beyond E3
            new = hist + (op,)
            transitions += 1
            if op[0] == "q":
                # replay the history on a fresh object, then compare the last answer
                obj = make()
                ans = None
                for k, i in new:
                    if k == "b":
                        apply_builder(obj, builders[i])
                    else:
                        ans = apply_query(obj, queries[i])
                bseq = tuple(i for k, i in new if k == "b")
                want = fresh_answer(bseq, op[1])
                if not same(ans, want):
                    violations.append((list(new), ans, want))
                if invariant is not None:
                    msg = invariant(obj)
                    if msg:
                        violations.append((list(new), msg, "invariant"))
                # a history ending in a query is only extended if a builder op can follow
                if len(new) < depth:
                    frontier.append(new)
            else:
                frontier.append(new)
    return {"histories": histories, "transitions": transitions, "violations": violations}
