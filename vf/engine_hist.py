"""E3: explicit-state BFS over query histories on ONE live object.

A state is the event history that produced it; the object is rebuilt from
scratch and the history replayed (live parser objects rarely copy).  States are
deduplicated on a canonical dump of everything future answers could read.
Every transition's answer is compared with the answer of a fresh object.
"""
from collections import deque


def explore(make, ops, apply_op, dump, depth, same, invariant=None, max_states=20000):
    """make() -> obj;  apply_op(obj, op) -> answer;  dump(obj) -> hashable;
    same(a, b) -> bool;  invariant(obj) -> None or str (violation text).
    Returns dict(states, transitions, violations=[(history, op, have, want)], capped)."""
    fresh = {}
    for i, op in enumerate(ops):
        fresh[i] = apply_op(make(), op)
    init = make()
    seen = {dump(init)}
    frontier = deque([()])
    transitions = 0
    violations = []
    capped = False
    maxdepth = 0
    while frontier:
        hist = frontier.popleft()
        if len(hist) >= depth:
            continue
        for i, op in enumerate(ops):
            obj = make()
            for j in hist:
                apply_op(obj, ops[j])
            ans = apply_op(obj, op)
            transitions += 1
            if not same(ans, fresh[i]):
                violations.append((list(hist), i, ans, fresh[i]))
            if invariant is not None:
                msg = invariant(obj)
                if msg:
                    violations.append((list(hist), i, msg, "grammar unchanged"))
            k = dump(obj)
            if k not in seen:
                if len(seen) >= max_states:
                    capped = True
                    continue
                seen.add(k)
                frontier.append(hist + (i,))
                maxdepth = max(maxdepth, len(hist) + 1)
    return {"states": len(seen), "transitions": transitions, "violations": violations, "capped": capped, "max_depth": maxdepth}
