"""Shared helpers: build real CFG objects from enumerated states."""
import itertools

from vf.semirings import Poly
from vf import spaces

from genlm.grammar.cfg import CFG

HEADS = ("S", "A")
TERMS = ("a", "b")


class FreshNames:
    """Renaming under which EVERY occurrence of a nonterminal is a distinct Python object
    (equal and equally hashed, never identical): multi-character strings built at run time are
    not interned.  Models names read from a file or assembled by the caller."""

    def __init__(self, nts, prefix="N:"):
        self.nts = set(nts)
        self.prefix = prefix

    def get(self, x, default=None):
        if x in self.nts:
            return "".join((self.prefix, str(x)))
        return default

    def __repr__(self):
        return f"FreshNames({self.prefix!r}+name, a new object per occurrence)"


def build(rules, R, weights, S="S", V=TERMS, order=None, rename=None):
    """rules: list of (head, body); weights[i] is the weight of rule i.
    order: permutation of rule indices (builder-operation order);
    rename: dict on nonterminals (injective)."""
    f = (lambda x: rename.get(x, x)) if rename else (lambda x: x)
    g = CFG(R, f(S), set(V))
    idx = order if order is not None else range(len(rules))
    for i in idx:
        h, b = rules[i]
        g.add(weights[i], f(h), *[f(y) for y in b])
    return g


def poly_weights(n):
    return [Poly.var(i) for i in range(n)]


def state_rules(ops, state):
    return [ops[i] for i in state]


_SPACE_CACHE = {}


def grammar_cases(depth, heads=HEADS, terms=TERMS, maxbody=2, with_sharp=True, need_start_rule=False):
    """Returns (cases, states, transitions).  A case is {'name':..., 'rules': [[head, body], ...]}."""
    key = (depth, heads, terms, maxbody)
    if key not in _SPACE_CACHE:
        _SPACE_CACHE[key] = spaces.grammar_states(depth, heads, terms, maxbody)
    ops, states, transitions = _SPACE_CACHE[key]
    cases = []
    for st in states:
        rules = [[ops[i][0], list(ops[i][1])] for i in st]
        if need_start_rule and not any(h == heads[0] for h, _ in rules):
            continue
        cases.append({"name": "bfs", "rules": rules})
    nstates = len(states)
    if with_sharp:
        for name, rules in spaces.SHARP:
            cases.append({"name": "sharp:" + name, "rules": [[h, list(b)] for h, b in rules]})
            nstates += 1
            transitions += len(rules)
    return cases, nstates, transitions


IMAP3 = {"a": 0, "b": 1, "c": 2}


def case_rules(case):
    if case.get("symmap"):
        m = case["symmap"]
        return [(h, tuple(m.get(y, y) for y in b)) for h, b in case["rules"]]
    if case.get("ints"):
        return [(h, tuple(IMAP3.get(y, y) for y in b)) for h, b in case["rules"]]
    return [(h, tuple(b)) for h, b in case["rules"]]


def case_terms(case):
    if case.get("symmap"):
        m = case["symmap"]
        return {m.get(t, t) for t in set(TERMS) | {y for h, b in case["rules"] for y in b if isinstance(y, str) and y[:1].islower()}}
    if case.get("ints"):
        return {0, 1, 2}
    t = set(TERMS)
    for h, b in case["rules"]:
        for y in b:
            if isinstance(y, str) and y[:1].islower():
                t.add(y)
    return t


def permutations_and_renamings(rules, max_perms=None):
    """All rule orders x a fixed family of injective renamings of the nonterminals."""
    nts = []
    for h, b in rules:
        for y in (h,) + tuple(b):
            if not y[:1].islower() and y not in nts:
                nts.append(y)
    if "S" not in nts:
        nts.insert(0, "S")
    pools = [
        None,
        {n: f"{n}'" for n in nts},
        dict(zip(nts, reversed(nts))) if len(nts) > 1 else {n: "Z" for n in nts},
        {n: i for i, n in enumerate(reversed(nts))},
        {n: (n, "t") for n in nts},
        FreshNames(nts),
    ]
    perms = list(itertools.permutations(range(len(rules))))
    if max_perms is not None:
        perms = perms[:max_perms]
    for p in perms:
        for r in pools:
            yield list(p), r


def short(x, n=200):
    s = repr(x)
    return s if len(s) <= n else s[:n] + "..."


def fclose(have, want, rel=1e-6, abs_=1e-9):
    """Float comparison 'up to the convergence tolerance': the library's fixed
    points stop at an absolute change of 1e-12, which is amplified by the number
    of remaining iterations, so small values carry an absolute error."""
    try:
        return abs(have - want) <= rel * abs(want) + abs_
    except TypeError:
        return False


def shared_vars(rules):
    """var_of[i]: identical (head, body) rules share one indeterminate (so that two
    rule objects are equal by value, as duplicate rules with equal numeric weights are).
    Returns None when the grammar has no duplicate rule."""
    first = {}
    var_of = []
    for i, r in enumerate(rules):
        var_of.append(first.setdefault(r, i))
    return var_of if len(first) < len(rules) else None
