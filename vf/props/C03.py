"""C03 - prefix weight = total weight of all strings with that prefix; derivative route."""
from vf import gram
from vf.gram import case_rules, case_terms, short
from vf.ref_cfg import NoConvergence, enum_derivs, ref_prefix_weight, ref_totals, ref_weight, rules_of, table_prefix
from vf.runner import CaseTimeout
from vf.semirings import Poly, StarDiverges
from vf.spaces import strings_upto

from genlm.grammar.semiring import Float

ID = "C03"
LEVEL = "model_checking"
TIER = "quick"
FLOATW = [0.5, 1 / 3, 0.2, 1 / 7, 0.25, 0.3]


def cfgp():
    if TIER == "thorough":
        return dict(D=6, depth=3, plen=3, ylen=2, extra=True)
    return dict(D=5, depth=3, plen=3, ylen=2, extra=False)


def init_worker(tier):
    global TIER
    TIER = tier
    Poly.D = cfgp()["D"]


def plan(tier, seed):
    global TIER
    TIER = tier
    p = cfgp()
    base, nstates, ntrans = gram.grammar_cases(p["depth"])
    cases = [dict(c, mode="free") for c in base]
    if p["extra"]:
        b3, s3, t3 = gram.grammar_cases(2, heads=("S", "A", "B"), with_sharp=False)
        b4, s4, t4 = gram.grammar_cases(2, heads=("S", "A"), maxbody=3, with_sharp=False)
        cases += [dict(c, mode="free") for c in b3 + b4]
        nstates += s3 + s4
        ntrans += t3 + t4
    for c in base:
        if len(c["rules"]) <= (3 if tier == "thorough" else 2) or c["name"].startswith("sharp"):
            cases.append(dict(c, mode="float"))
    bi, si, ti = gram.grammar_cases(2 if tier != "thorough" else 3, terms=("a", "b", "c"), with_sharp=False)
    cases += [dict(c, mode="free", ints=True) for c in bi]  # integer terminals {0,1,2} (0 is falsy)
    nstates += si
    ntrans += ti
    return {
        "cases": cases,
        "states": nstates,
        "transitions": ntrans,
        "chunk": 10,
        "rule": (
            f"E1: BFS over cfg.add(rule) sequences to depth {p['depth']} + sharp grammars; in every state every prefix p of length <= {p['plen']} "
            f"(incl. empty and prefixes of no string), free indeterminate weights (Poly_D, D={p['D']}): cfg.prefix_weight(p), naive-fixed-point evaluation of "
            "cfg.prefix_grammar on p, treesum of the iterated derivative, and for every token a and string y the derivative grammar on y vs weight(a.y); "
            "all against sum_{y extends p} table[y] from the derivation enumerator (exact multiplicities). float mode: same with float weights vs the reference prefix fixed point. "
            "non-trivial = some prefix of length >=1 has non-zero prefix weight"
        ),
        "bounds": p,
        "assumptions": ["derivations with more than D rule applications are compared modulo truncation (semiring homomorphism)"],
    }


def _fail(pred, inp, obs, exp):
    return {"pred": pred, "input": inp, "observed": short(obs), "expected": short(exp)}


def _call(f, *a):
    try:
        return f(*a)
    except CaseTimeout:
        raise
    except Exception as e:  # noqa: BLE001
        return f"EXC {type(e).__name__}: {e}"


def run_free(case):
    p = cfgp()
    rules = case_rules(case)
    V = case_terms(case)
    table = enum_derivs(rules, "S", V, Poly.D)
    g = gram.build(rules, Poly, gram.poly_weights(len(rules)), V=V)
    inp0 = {"rules": case["rules"]} if not case.get("ints") else {"rules": case["rules"], "tokens": "a,b,c -> 0,1,2"}
    fails = []
    evals = 0
    nonzero = 0
    pg = _call(lambda: g.prefix_grammar)
    pg_rules = None
    if isinstance(pg, str):
        fails.append(_fail("prefix_grammar:construct", inp0, pg, "grammar"))
    else:
        pg_rules = rules_of(pg)
    plen = p["plen"] if len(V) <= 2 else 2
    for pre in strings_upto(sorted(V, key=repr), plen):
        want = table_prefix(table, pre)
        if pre and want != Poly.zero:
            nonzero += 1
        have = _call(g.prefix_weight, pre)
        evals += 1
        if not (isinstance(have, Poly) and have == want):
            fails.append(_fail("prefix_weight(p) == sum over extensions", dict(inp0, prefix=list(pre)), have, want))
        if pg_rules is not None:
            have = _call(ref_weight, pg_rules, pg.S, pg.V, Poly, pre)
            evals += 1
            if not (isinstance(have, Poly) and have == want):
                fails.append(_fail("prefix_grammar assigns prefix weight (reference evaluation)", dict(inp0, prefix=list(pre)), have, want))
        # derivative route
        have = _call(lambda: g.derivatives(pre)[-1].treesum())
        evals += 1
        if not (isinstance(have, Poly) and have == want):
            fails.append(_fail("treesum(derivatives(p)[-1]) == prefix weight", dict(inp0, prefix=list(pre)), have, want))
    # derivative(a)(y) == w(a.y), also iterated (SKIP branch on repeated tokens)
    for pre in strings_upto(sorted(V, key=repr), 2):
        if not pre:
            continue
        Dg = _call(lambda: g.derivatives(pre)[-1])
        if isinstance(Dg, str):
            fails.append(_fail("derivative:construct", dict(inp0, prefix=list(pre)), Dg, "grammar"))
            continue
        drules = rules_of(Dg)
        for y in strings_upto(sorted(V, key=repr), p["ylen"]):
            want = table.get(pre + y, Poly.zero)
            have = _call(ref_weight, drules, Dg.S, Dg.V, Poly, y)
            evals += 1
            if not (isinstance(have, Poly) and have == want):
                fails.append(_fail("derivative(p)(y) == weight(p.y) (reference evaluation)", dict(inp0, prefix=list(pre), y=list(y)), have, want))
            if len(pre) == 1:
                have = _call(Dg, y)
                evals += 1
                if not (isinstance(have, Poly) and have == want):
                    fails.append(_fail("derivative(a)(y) == weight(a.y)", dict(inp0, prefix=list(pre), y=list(y)), have, want))
    # options and composition with trim: derivative(a, i=k) for a non-default position tag k, and the
    # trimmed (iterated) derivative, define the same weighted language
    for pre in strings_upto(sorted(V, key=repr), 2):
        if not pre:
            continue
        variants = [("derivatives(p)[-1].trim()", lambda: g.derivatives(pre)[-1].trim())]
        if len(pre) == 1:
            variants += [(f"derivative(a, i={k})", (lambda k=k: g.derivative(pre[0], i=k))) for k in (1, 3)]
            variants += [("derivative(a, i=2).trim()", lambda: g.derivative(pre[0], i=2).trim())]
        for vname, mk in variants:
            Dg = _call(mk)
            if isinstance(Dg, str):
                fails.append(_fail("derivative:construct", dict(inp0, prefix=list(pre), variant=vname), Dg, "grammar"))
                continue
            drules = rules_of(Dg)
            for y in strings_upto(sorted(V, key=repr), p["ylen"]):
                want = table.get(pre + y, Poly.zero)
                have = _call(ref_weight, drules, Dg.S, Dg.V, Poly, y)
                evals += 1
                if not (isinstance(have, Poly) and have == want):
                    fails.append(_fail("derivative(p)(y) == weight(p.y) (options / trimmed; reference evaluation)", dict(inp0, prefix=list(pre), y=list(y), variant=vname), have, want))
                    break
    return {"evals": evals, "nontrivial": int(nonzero > 0), "fails": fails, "counters": {"executions": evals, "nonzero_prefixes": nonzero}}


def run_float(case):
    p = cfgp()
    rules = case_rules(case)
    V = case_terms(case)
    fw = [FLOATW[i % len(FLOATW)] for i in range(len(rules))]
    frules = [(w, h, b) for w, (h, b) in zip(fw, rules)]
    inp0 = {"rules": case["rules"], "weights": "float"}
    fails = []
    evals = 0
    nonzero = 0
    try:
        totals = ref_totals(frules, V, Float, tol=1e-16, maxit=3000)
    except (NoConvergence, OverflowError):
        return {"evals": 0, "nontrivial": 0, "fails": [], "counters": {"skipped_nonconvergent": 1}}
    if any(v > 1e6 for v in totals.values()):
        return {"evals": 0, "nontrivial": 0, "fails": [], "counters": {"skipped_nonconvergent": 1}}
    g = gram.build(rules, Float, fw, V=V)
    for pre in strings_upto(sorted(V), p["plen"]):
        try:
            want = ref_prefix_weight(frules, "S", V, Float, pre, tol=1e-16, maxit=3000, totals=totals)
        except NoConvergence:
            continue
        if pre and want > 0:
            nonzero += 1
        for name, f in (("prefix_weight", lambda: g.prefix_weight(pre)), ("derivatives.treesum", lambda: g.derivatives(pre)[-1].treesum())):
            have = _call(f)
            evals += 1
            if not (isinstance(have, (int, float)) and gram.fclose(have, want)):
                fails.append(_fail(f"float {name}(p) == reference prefix weight", dict(inp0, prefix=list(pre)), have, want))
    return {"evals": evals, "nontrivial": int(nonzero > 0), "fails": fails, "counters": {"executions": evals}}


def run_case(case):
    return {"free": run_free, "float": run_float}[case["mode"]](case)
