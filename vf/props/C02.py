"""C02 - every parser returns the derivation-sum weight of a string."""
from fractions import Fraction

from vf import gram, engine_sched as es
from vf.gram import case_rules, case_terms, short
from vf.ref_cfg import NoConvergence, enum_derivs, member, ref_weight
from vf.runner import CaseTimeout, time_limit
from vf.semirings import Poly
from vf.spaces import strings_upto

from genlm.grammar.cfg import CFG
from genlm.grammar.parse import earley, earley_rescaled
from genlm.grammar.parse.cky import IncrementalCKY
from genlm.grammar.semiring import Boolean, Float, MaxTimes

ID = "C02"
LEVEL = "model_checking"
CASE_HARD_TIMEOUT = 900  # the scale case builds two parsers over 34k rules (~10 s each)
TIER = "quick"
FLOATW = [0.5, 1 / 3, 0.2, 1 / 7, 0.25, 0.3]
SIGNEDW = [1.0, -1.0, 0.5, 2.0, -0.5, 4.0]  # dyadic: float arithmetic on them is exact
FRACW = [Fraction(1, 2), Fraction(1, 3), Fraction(1, 5), Fraction(1, 7), Fraction(1, 4), Fraction(3, 10)]


def cfgp():
    if TIER == "thorough":
        return dict(D=6, depth=3, heads=("S", "A"), maxlen=4, matlen=3, sched_bound=3, perm_depth=3, num_depth=3)
    return dict(D=5, depth=3, heads=("S", "A"), maxlen=3, matlen=2, sched_bound=2, perm_depth=2, num_depth=2)


def init_worker(tier):
    global TIER
    TIER = tier
    Poly.D = cfgp()["D"]


def plan(tier, seed):
    global TIER
    TIER = tier
    p = cfgp()
    base, nstates, ntrans = gram.grammar_cases(p["depth"], heads=p["heads"])
    cases = []
    for c in base:
        cases.append(dict(c, mode="free"))
    extra = []
    if tier == "thorough":
        b3, s3, t3 = gram.grammar_cases(2, heads=("S", "A", "B"), with_sharp=False)
        extra += [dict(c, mode="free") for c in b3]
        b4, s4, t4 = gram.grammar_cases(2, heads=("S", "A"), maxbody=3, with_sharp=False)
        extra += [dict(c, mode="free") for c in b4]
        nstates += s3 + s4
        ntrans += t3 + t4
    cases += extra
    bi, si, ti = gram.grammar_cases(2 if tier != "thorough" else 3, terms=("a", "b", "c"), with_sharp=False)
    cases += [dict(c, mode="free", ints=True) for c in bi]  # integer terminals {0,1,2}
    # one SCALE input (size is the one dimension the small-scope bound cannot reach): 185 tokens, all 185^2 two-token strings
    cases.insert(0, {"name": "scale", "mode": "scale", "K": 150, "rules": []})
    nstates += si
    ntrans += ti
    for c in base:
        small = len(c["rules"]) <= p["num_depth"] or c["name"].startswith("sharp")
        if small:
            cases.append(dict(c, mode="num"))
        if len(c["rules"]) <= p["perm_depth"] or c["name"].startswith("sharp"):
            cases.append(dict(c, mode="sched"))
        if 1 <= len(c["rules"]) <= p["perm_depth"] or (c["name"].startswith("sharp") and 1 <= len(c["rules"]) <= 4):
            cases.append(dict(c, mode="perm"))
    return {
        "cases": cases,
        "states": nstates,
        "transitions": ntrans,
        "chunk": 20,
        "rule": (
            "E1: BFS over cfg.add(rule) sequences (42-rule alphabet X->beta, X in {S,A}, |beta|<=2 over {S,A,a,b}; multisets, "
            f"depth {p['depth']}, canonical up to a<->b) + {len([1 for c in base if c['name'].startswith('sharp')])} sharp grammars; "
            f"per state every string of length <= {p['maxlen']}; modes: free = indeterminate weights (Poly_D, D={p['D']}) for cfg(x)/Earley/CKY/materialize "
            "vs the derivation enumerator; num = Boolean, MaxTimes(Fraction), rescaled Earley(float) vs naive fixed point; "
            f"scale = one grammar with 150 tokens, 22,500 nonterminals and 45,000 rules for all strings t0 ti tj (rule-suffix tables > 2^16 entries), 14 strings, both Earley parsers; sched = E2 all agenda tie-break resolutions with <= {p['sched_bound']} deviations; perm = all rule orders x 6 renamings (one of them gives every OCCURRENCE of a nonterminal a new equal-but-not-identical object). "
            "non-trivial = the grammar has a string of non-zero weight within the bound and a non-zero value was compared"
        ),
        "bounds": p,
        "assumptions": [
            "derivations with more than D rule applications are outside the free-weight comparison (truncation is a semiring homomorphism, so agreement modulo degree>D is necessary for correctness)",
            "PYTHONHASHSEED is one sampled value per run (derived from VERIF_SEED); rule order, names and agenda ties are enumerated",
        ],
    }


def _fail(pred, inp, obs, exp, repro=None):
    d = {"pred": pred, "input": inp, "observed": short(obs), "expected": short(exp)}
    if repro:
        d["repro"] = repro
    return d


def _call(f, *a):
    try:
        return f(*a)
    except CaseTimeout:
        raise
    except Exception as e:  # noqa: BLE001
        return f"EXC {type(e).__name__}: {e}"


def _repro_free(rules, V, x, parser, want):
    return f"""from vf.semirings import Poly
from genlm.grammar.cfg import CFG
from genlm.grammar.parse.earley import Earley
from genlm.grammar.parse.cky import IncrementalCKY
Poly.D = {Poly.D}
g = CFG(Poly, 'S', {set(V)!r})
for i, (h, b) in enumerate({rules!r}):
    g.add(Poly.var(i), h, *b)
f = {{'cfg': g, 'earley': Earley(g), 'cky': IncrementalCKY(g.cnf)}}[{parser!r}]
have = f({tuple(x)!r})
assert repr(have) == {repr(want)!r}, have   # coefficient = number of derivation trees with that rule multiset
"""


def run_free(case):
    r = _run_free(case, None)
    var_of = gram.shared_vars(case_rules(case))
    if var_of is not None:
        r2 = _run_free(case, var_of)  # duplicate rules equal by value (same weight)
        for k in ("evals",):
            r[k] += r2[k]
        r["fails"] += r2["fails"]
        r["counters"]["executions"] += r2["counters"]["executions"]
    return r


def _run_free(case, var_of):
    p = cfgp()
    rules = case_rules(case)
    V = case_terms(case)
    table = enum_derivs(rules, "S", V, Poly.D, var_of=var_of)
    W0 = gram.poly_weights(len(rules)) if var_of is None else [Poly.var(v) for v in var_of]
    g = gram.build(rules, Poly, W0, V=V)
    fails = []
    evals = 0
    nonzero = 0
    parsers = [("cfg", g)]
    E = _call(earley.Earley, g)
    C = _call(lambda: IncrementalCKY(g.cnf))
    parsers += [("earley", E), ("cky", C)]
    inp0 = {"rules": case["rules"]} if var_of is None else {"rules": case["rules"], "duplicates_share_weight": True}
    if case.get("ints"):
        inp0["tokens"] = "a,b,c -> 0,1,2"
    for name, f in parsers:
        if isinstance(f, str):
            fails.append(_fail(f"{name}:construct", dict(inp0, parser=name), f, "parser object"))
    maxlen = p["maxlen"] if len(V) <= 2 else min(p["maxlen"], 3)
    for x in strings_upto(sorted(V, key=repr), maxlen):
        want = table.get(x, Poly.zero)
        if want != Poly.zero:
            nonzero += 1
        for name, f in parsers:
            if isinstance(f, str):
                continue
            have = _call(f, x)
            evals += 1
            if not (isinstance(have, Poly) and have == want):
                fails.append(_fail(f"{name}(x)==derivation-sum", dict(inp0, parser=name, x=list(x)), have, want, _repro_free(rules, V, x, name, want)))
    # tabulation
    for n in range(0, p["matlen"] + 1):
        have = _call(g.materialize, n)
        evals += 1
        wantd = {y: w for y, w in table.items() if len(y) <= n and w != Poly.zero}
        if isinstance(have, str):
            fails.append(_fail("materialize(n)==language<=n", dict(inp0, n=n), have, wantd))
            continue
        haved = {k: v for k, v in have.items() if v != Poly.zero}
        if haved != wantd or any(len(k) > n for k in have):
            fails.append(_fail("materialize(n)==language<=n", dict(inp0, n=n), haved, wantd))
    return {"evals": evals, "nontrivial": int(nonzero > 0), "fails": fails, "counters": {"executions": evals, "nonzero_strings": nonzero}}


def run_num(case):
    """Shipped semirings against the naive fixed point on the untransformed grammar."""
    p = cfgp()
    rules = case_rules(case)
    V = case_terms(case)
    fails = []
    evals = 0
    nonzero = 0
    inp0 = {"rules": case["rules"]}
    n = len(rules)
    # Boolean
    gb = gram.build(rules, Boolean, [Boolean.one] * n, V=V)
    # MaxTimes with exact rational scores
    mw = [MaxTimes(FRACW[i % len(FRACW)]) for i in range(n)]
    gm = gram.build(rules, MaxTimes, mw, V=V)
    # Float for the rescaled parser
    fw = [FLOATW[i % len(FLOATW)] for i in range(n)]
    gf = gram.build(rules, Float, fw, V=V)
    objs = {}
    for name, mk in [
        ("bool:cfg", lambda: gb),
        ("bool:earley", lambda: earley.Earley(gb)),
        ("bool:cky", lambda: IncrementalCKY(gb.cnf)),
        ("maxtimes:cfg", lambda: gm),
        ("maxtimes:earley", lambda: earley.Earley(gm)),
        ("maxtimes:cky", lambda: IncrementalCKY(gm.cnf)),
    ]:
        objs[name] = _call(mk)
    float_ok = True
    try:
        with time_limit(20):
            for x in strings_upto(sorted(V), 2):
                ref_weight([(w, h, b) for w, (h, b) in zip(fw, rules)], "S", V, Float, x, tol=1e-15, maxit=300)
    except (NoConvergence, OverflowError):
        float_ok = False
    if float_ok:
        for name, mk in [
            ("float:cfg", lambda: gf),
            ("float:earley", lambda: earley.Earley(gf)),
            ("float:rescaled", lambda: earley_rescaled.Earley(gf)),
            ("float:cky", lambda: IncrementalCKY(gf.cnf)),
        ]:
            objs[name] = _call(mk)
    # signed real weights with exact cancellation (running sums hit 0.0) on grammars with finitely many
    # derivations: every permutation of the first three rules x every assignment of {1,-1,0.5} to them
    from vf.props.C08 import finite_derivations
    import itertools as _it

    sw = None
    signed_variants = []
    from vf.props.C08 import no_recursion

    if n and no_recursion(rules, V):
        sw = [SIGNEDW[i % len(SIGNEDW)] for i in range(n)]
        gs = gram.build(rules, Float, sw, V=V)
        for name, mk in [("signed:cfg", lambda: gs), ("signed:earley", lambda: earley.Earley(gs)), ("signed:rescaled", lambda: earley_rescaled.Earley(gs)), ("signed:cky", lambda: IncrementalCKY(gs.cnf))]:
            objs[name] = _call(mk)
        k3 = min(3, n)
        for wperm in set(_it.permutations([1.0, -1.0, 0.5][:k3])):
            for rperm in _it.permutations(range(k3)):
                W2 = list(wperm) + [1.0] * (n - k3)
                order = list(rperm) + list(range(k3, n))
                signed_variants.append((W2, order))
        # weights greater than one (exact in floating point), natural and reversed rule order
        BIGW = [3.0, 2.0, 1.5, 4.0, 0.75, 5.0]
        signed_variants.append(([BIGW[i % 6] for i in range(n)], list(range(n))))
        signed_variants.append(([BIGW[(i + 2) % 6] for i in range(n)], list(range(n))[::-1]))
    for name, f in objs.items():
        if isinstance(f, str):
            fails.append(_fail(f"{name}:construct", dict(inp0, parser=name), f, "parser object"))
    brules = [(h, b) for h, b in rules]
    for x in strings_upto(sorted(V), p["maxlen"]):
        wb = Boolean(member(brules, "S", V, x))
        wm = ref_weight([(w, h, b) for w, (h, b) in zip(mw, rules)], "S", V, MaxTimes, x)
        wf = None
        if float_ok:
            try:
                wf = ref_weight([(w, h, b) for w, (h, b) in zip(fw, rules)], "S", V, Float, x, tol=1e-15, maxit=300)
            except NoConvergence:
                wf = None
        ws = ref_weight([(w, h, b) for w, (h, b) in zip(sw, rules)], "S", V, Float, x) if sw is not None else None
        if wb.score:
            nonzero += 1
        for name, f in objs.items():
            if isinstance(f, str):
                continue
            have = _call(f, x)
            evals += 1
            if name.startswith("bool"):
                ok = isinstance(have, Boolean) and have == wb
                want = wb
            elif name.startswith("maxtimes"):
                ok = isinstance(have, MaxTimes) and have == wm
                want = wm
            elif name.startswith("signed"):
                want = ws
                ok = isinstance(have, (int, float)) and abs(have - ws) <= 1e-9
            else:
                if wf is None:
                    continue
                want = wf
                ok = isinstance(have, (int, float)) and gram.fclose(have, wf)
            if not ok:
                fails.append(_fail(f"{name}(x)==reference", dict(inp0, parser=name, x=list(x)), have, want))
    for W2, order in signed_variants:
        g2 = gram.build(rules, Float, W2, V=V, order=order)
        w2rules = [(w, h, b) for w, (h, b) in zip(W2, rules)]
        ps = [("signed:earley", _call(earley.Earley, g2)), ("signed:rescaled", _call(earley_rescaled.Earley, g2)), ("signed:cky", _call(lambda: IncrementalCKY(g2.cnf)))]
        for x in strings_upto(sorted(V, key=repr), min(p["maxlen"], 3)):
            want = ref_weight(w2rules, "S", V, Float, x)
            for name, f in ps:
                have = f if isinstance(f, str) else _call(f, x)
                evals += 1
                if not (isinstance(have, (int, float)) and abs(have - want) <= 1e-9):
                    fails.append(_fail(f"{name}(x)==reference", dict(inp0, parser=name, x=list(x), weights=W2, order=order), have, want))
    return {"evals": evals, "nontrivial": int(nonzero > 0), "fails": fails, "counters": {"executions": evals, "float_skipped_nonconvergent": int(not float_ok)}}


def run_sched(case):
    """E2: every resolution of equal-priority agenda ties (<= bound deviations)."""
    p = cfgp()
    rules = case_rules(case)
    V = case_terms(case)
    table = enum_derivs(rules, "S", V, Poly.D)
    g = gram.build(rules, Poly, gram.poly_weights(len(rules)), V=V)
    fw = [FLOATW[i % len(FLOATW)] for i in range(len(rules))]
    gf = gram.build(rules, Float, fw, V=V)
    frules = [(w, h, b) for w, (h, b) in zip(fw, rules)]
    fails = []
    evals = 0
    execs = 0
    cps = 0
    ties = 0
    inp0 = {"rules": case["rules"]}
    float_ok = True
    try:
        with time_limit(20):
            ref_weight(frules, "S", V, Float, ("a",), tol=1e-15, maxit=300)
    except (NoConvergence, OverflowError):
        float_ok = False
    for x in strings_upto(sorted(V), min(p["maxlen"], 3)):
        if not x:
            continue
        want = table.get(x, Poly.zero)

        def run_std():
            r = _call(lambda: earley.Earley(g)(x))
            return r if isinstance(r, str) else ("ok" if r == want else repr(r))

        res = es.explore(run_std, p["sched_bound"], max_exec=3000)
        execs += res["executions"]
        cps += res["choice_points"]
        ties += int(res["max_branch"] > 1)
        evals += 1
        bad = [(o, pf) for o, pf in res["outcomes"].items() if o != "ok"]
        if bad:
            o, pf = bad[0]
            fails.append(_fail("earley: value independent of agenda tie-breaks", dict(inp0, parser="earley", x=list(x), schedule=pf[0]), o, want))
        if float_ok:
            try:
                wf = ref_weight(frules, "S", V, Float, x, tol=1e-15, maxit=300)
            except NoConvergence:
                continue

            def run_res():
                r = _call(lambda: earley_rescaled.Earley(gf)(x))
                if isinstance(r, str):
                    return r
                return "ok" if gram.fclose(r, wf) else repr(r)

            res = es.explore(run_res, p["sched_bound"], max_exec=3000)
            execs += res["executions"]
            cps += res["choice_points"]
            ties += int(res["max_branch"] > 1)
            evals += 1
            bad = [(o, pf) for o, pf in res["outcomes"].items() if o != "ok"]
            if bad:
                o, pf = bad[0]
                fails.append(_fail("rescaled: value independent of agenda tie-breaks", dict(inp0, parser="rescaled", x=list(x), schedule=pf[0]), o, wf))
    return {"evals": evals, "nontrivial": int(any(w != Poly.zero for w in table.values())), "fails": fails, "counters": {"executions": execs, "sched_executions": execs, "sched_choice_points": cps, "sched_runs_with_ties": ties}}


def run_perm(case):
    """Configurations: every rule order x injective renamings of the nonterminals."""
    p = cfgp()
    rules = case_rules(case)
    V = case_terms(case)
    table = enum_derivs(rules, "S", V, Poly.D)
    fails = []
    evals = 0
    inp0 = {"rules": case["rules"]}
    W = gram.poly_weights(len(rules))
    maxperm = 24 if len(rules) <= 4 else 6
    for order, ren in gram.permutations_and_renamings(rules, max_perms=maxperm):
        g = gram.build(rules, Poly, W, V=V, order=order, rename=ren)
        E = _call(earley.Earley, g)
        C = _call(lambda: IncrementalCKY(g.cnf))
        for x in strings_upto(sorted(V), min(p["maxlen"], 3)):
            want = table.get(x, Poly.zero)
            for name, f in (("cfg", g), ("earley", E), ("cky", C)):
                have = f if isinstance(f, str) else _call(f, x)
                evals += 1
                if not (isinstance(have, Poly) and have == want):
                    fails.append(_fail(f"{name}(x) independent of rule order / names", dict(inp0, parser=name, x=list(x), order=order, rename=short(ren)), have, want))
    return {"evals": evals, "nontrivial": int(any(w != Poly.zero for w in table.values())), "fails": fails, "counters": {"executions": evals, "configurations": evals}}


def run_scale(case):
    """S -> t0 A_ij [1/(i+j+2)], A_ij -> ti tj (each string t0 ti tj has exactly one derivation; the distinguishing
    part of a body comes LATE, so the codes of the rule-body suffixes that items advance to exceed 2^15 and 2^16)."""
    from fractions import Fraction

    K = case["K"]
    toks = [f"t{i}" for i in range(K)]
    g = CFG(Float, "S", set(toks))
    for i in range(K):
        for j in range(K):
            g.add(1.0 / (i + j + 2), "S", toks[0], ("A", i, j))
            g.add(1.0, ("A", i, j), toks[i], toks[j])
    fails = []
    evals = 0
    probes = [(0, 0), (0, 1), (1, 0), (K - 1, K - 1), (K - 1, 0), (0, K - 1), (K // 2, K // 2), (K - 2, K - 1), (97, 131), (149, 93)]
    for name, mk in (("earley", lambda: earley.Earley(g)), ("rescaled", lambda: earley_rescaled.Earley(g))):
        inp0 = {"grammar": f"S -> t0 A_ij [1/(i+j+2)], A_ij -> ti tj for all i, j < {K}", "parser": name}
        ps = _call(mk)
        if isinstance(ps, str):
            fails.append(_fail(f"{name}: construct (large grammar)", inp0, ps, "parser"))
            continue
        for i, j in probes:
            have = _call(lambda: ps((toks[0], toks[i], toks[j])))
            evals += 1
            want = 1.0 / (i + j + 2)
            if isinstance(have, str) or not gram.fclose(have, want):
                fails.append(_fail(f"{name}(x)==derivation-sum (large grammar)", dict(inp0, x=[toks[0], toks[i], toks[j]]), have, want))
        for x in ((toks[0],), (toks[0], toks[1]), (toks[1], toks[1], toks[2]), ()):
            have = _call(lambda: ps(x))
            evals += 1
            if isinstance(have, str) or have != 0:
                fails.append(_fail(f"{name}(x)==0 outside the language (large grammar)", dict(inp0, x=list(x)), have, 0))
    return {"evals": evals, "nontrivial": 1, "fails": fails, "counters": {"executions": evals, "scale_rules": K * K}}


def run_case(case):
    if case["mode"] == "scale":
        return run_scale(case)
    if case["mode"] == "sched":
        es.install_heap()
        try:
            return run_sched(case)
        finally:
            es.uninstall_heap()
    return {"free": run_free, "num": run_num, "perm": run_perm}[case["mode"]](case)
