"""C05 - incremental parsing is history-independent; queries are pure (E3)."""
import itertools
from fractions import Fraction

from vf import gram, engine_hist as eh
from vf.gram import case_rules, case_terms, short
from vf.ref_cfg import NoConvergence, productive, ref_weight, rules_of
from vf.runner import CaseTimeout
from vf.semirings import Poly
from vf.spaces import SHARP, strings_upto

from genlm.grammar.cfg import CFG
from genlm.grammar.cfglm import EOS, BoolCFGLM, add_EOS
from genlm.grammar.parse import cky, earley, earley_rescaled
from genlm.grammar.semiring import Boolean, Float

ID = "C05"
LEVEL = "model_checking"
CASE_HARD_TIMEOUT = 1500  # the thorough tier's cold CKY query on a 520-token context is O(n^3) in pure Python
TIER = "quick"
FRACW = [Fraction(1, 2), Fraction(1, 3), Fraction(1, 5), Fraction(1, 7), Fraction(1, 4), Fraction(3, 10)]
FLOATW = [0.5, 1 / 3, 0.2, 1 / 7, 0.25, 0.3]
KINDS = ("earley", "rescaled", "cky", "earleylm", "rescaledlm", "ckylm", "boollm-earley", "boollm-cky", "cfg")


def cfgp():
    if TIER == "thorough":
        return dict(depth=3, deep=4, ndeep=8, bfs_depth=2, hist_depth_small=3, long=(100, 300, 600, 1000, 1500), cky_long=520, max_states=8000)
    return dict(depth=2, deep=3, ndeep=6, bfs_depth=1, hist_depth_small=2, long=(100, 600, 1200), cky_long=150, max_states=3000)


def init_worker(tier):
    global TIER
    TIER = tier
    Poly.D = 4


def plan(tier, seed):
    global TIER
    TIER = tier
    p = cfgp()
    cases = []
    nstates = 0
    base, _, _ = gram.grammar_cases(p["bfs_depth"], with_sharp=True)
    nsharp = 0
    for c in base:
        rules = case_rules(c)
        if "S" not in productive(rules, case_terms(c)):
            continue  # empty language: every answer is zero; covered by one sharp grammar below
        sharp = c["name"].startswith("sharp")
        if sharp and len(rules) > 6:
            continue
        if sharp:
            nsharp += 1
        for kind in KINDS:
            deep = sharp and nsharp <= p["ndeep"] and kind in ("earley", "rescaled", "cky", "earleylm")
            cases.append(dict(c, mode="hist", kind=kind, hdepth=p["deep"] if deep else (p["depth"] if sharp else p["hist_depth_small"])))
    cases.append({"name": "sharp:empty-language", "rules": [], "mode": "hist", "kind": "earley", "hdepth": 2})
    # symbol-type configurations: integer tokens whose hashes collide (hash(-1) == hash(-2)), and falsy tokens
    for c in base:
        if c["name"] in ("sharp:right-rec", "sharp:catalan", "sharp:nullable-pair", "sharp:anbn", "sharp:unary-chain+binary-reuse", "sharp:mutual-recursion"):
            for kind in (("earley", "cky", "ckylm", "earleylm", "boollm-cky", "boollm-earley") if tier == "thorough" else ("earley", "cky", "boollm-cky")):
                cases.append(dict(c, mode="hist", kind=kind, hdepth=2, symmap={"a": -1, "b": -2}))
                cases.append(dict(c, mode="hist", kind=kind, hdepth=2, symmap={"a": 0, "b": 1}))
    for pool in INTERLEAVE_POOLS:
        cases.append({"name": "interleave", "rules": [], "mode": "interleave", "pool": pool})
    for fam in ("right-rec", "anbn"):
        for kind in ("earley", "rescaled", "cky", "earleylm", "rescaledlm", "boollm-earley"):
            cases.append({"name": "long:" + fam, "rules": [], "mode": "long", "kind": kind, "family": fam})
    # longest explorations first (the pool hands out one case at a time)
    cases.sort(key=lambda c: -(100 * int(c.get("hdepth", 0) >= 3) + 50 * int(c["mode"] == "interleave") + 30 * int(c["mode"] == "long") + len(c.get("rules", []))))
    return {
        "cases": cases,
        "states": len(cases),
        "transitions": len(cases),
        "chunk": 1,
        "rule": (
            "E3: for every sharp grammar with non-empty language (<= 6 rules) and every BFS grammar of <= "
            f"{p['bfs_depth']} rules, and for each object kind {KINDS}: explicit-state BFS over query histories on ONE live object to depth {p['depth']} (sharp; {p['deep']} for the first {p['ndeep']} sharp grammars x parser kinds) / {p['hist_depth_small']} (bfs); "
            "query alphabet = call(x) / next-token weights(c) / chart(c) for every context of length <= 2 plus two of length 3, lm(x.EOS), clear_cache(); for CFG objects: call, cnf, trim, cotrim, prefix_grammar, prefix_weight, "
            "derivative, agenda, renumber, nullaryremove, unaryremove, unarycycleremove, binarize, @ string, add_EOS, to_bytes, g[S]. State = canonical dump of all caches (per-prefix columns with sharing structure, i_chart, c_chart, "
            "waiting_for incl. key order, rescale). Every transition's answer is compared (as a function, default zero) with a fresh object's; the grammar handed to the constructor must be unchanged in every state. "
            f"long: cold query on a {p['long']}-token context vs the same context fed incrementally. states/transitions are the sums over all (grammar, kind) explorations. non-trivial = the exploration reached more than one cache state"
        ),
        "bounds": p,
        "assumptions": ["the canonical dump is deliberately over-fine (costs time, cannot merge states with different futures)"],
        "exhaustive": True,
        "states_from_counter": "hist_states",
        "transitions_from_counter": "hist_transitions",
    }


def _fail(pred, inp, obs, exp):
    return {"pred": pred, "input": inp, "observed": short(obs), "expected": short(exp)}


# ---------------------------------------------------------------------------
# canonical dumps


def _col_dump_earley(c):
    return (
        c.k,
        tuple(sorted((repr(k), repr(v)) for k, v in c.i_chart.items())),
        tuple(sorted((repr(k), repr(v)) for k, v in c.c_chart.items())),
        tuple((repr(k), tuple(map(repr, v))) for k, v in c.waiting_for.items()),
        repr(getattr(c, "rescale", None)),
    )


def _col_dump_cky(c):
    return tuple((i, tuple(sorted((repr(k), repr(v)) for k, v in ch.items()))) for i, ch in c.items())


_OPAQUE = [0]


def dump_parser(m):
    """Canonical dump of the parser's caches.  If the internals do not have the expected
    shape (a refactoring), fall back to a unique token: states are then never merged
    (more work, still exhaustive to the depth bound, never unsound)."""
    try:
        return _dump_parser(m)
    except Exception:  # noqa: BLE001
        _OPAQUE[0] += 1
        return ("opaque", _OPAQUE[0])


def _dump_parser(m):
    ids = {}
    cols = []
    layout = []
    for p in sorted(m._chart, key=lambda p: (len(p), repr(p))):
        row = []
        for c in m._chart[p]:
            if id(c) not in ids:
                ids[id(c)] = len(ids)
                cols.append(c)
            row.append(ids[id(c)])
        layout.append((p, tuple(row)))
    is_e = hasattr(m, "_initial_column")
    init = _col_dump_earley(m._initial_column) if is_e else None
    return (tuple(layout), tuple((_col_dump_earley if is_e else _col_dump_cky)(c) for c in cols), init)


def parser_of(obj):
    m = obj
    while not hasattr(m, "_chart"):
        m = m.model
    return m


def snap(g):
    return (tuple(repr(r) for r in g.rules), frozenset(map(repr, g.V)), repr(g.S), frozenset(map(repr, g.N)))


def canon_rules(g):
    """Rules with nonterminals renamed by first occurrence: generated names depend on
    the process-global _gen_nt counter, which the property cannot observe."""
    names = {g.S: 0}

    def f(y):
        if y in g.V:
            return ("t", repr(y))
        if y not in names:
            names[y] = len(names)
        return names[y]

    return tuple((repr(r.w), f(r.head), tuple(f(y) for y in r.body)) for r in g.rules)


# ---------------------------------------------------------------------------
# answers as comparable values


def norm(ans):
    if isinstance(ans, dict):
        return ("chart", {k: v for k, v in ans.items() if v != 0 and repr(v) != "0" and repr(v) != "False"})
    return ("val", ans)


def same(a, b):
    if isinstance(a, str) or isinstance(b, str):
        return a == b
    if len(a) != len(b) or a[2:] != b[2:]:
        return False  # optional structural part of an answer (e.g. the rule set kept by trim / cotrim)
    (ta, va), (tb, vb) = a[:2], b[:2]
    if ta != tb:
        return False
    if ta == "chart":
        if set(va) != set(vb):
            return False
        return all(_veq(va[k], vb[k]) for k in va)
    return _veq(va, vb)


def _veq(x, y):
    if isinstance(x, float) or isinstance(y, float):
        try:
            return abs(x - y) <= 1e-9 * max(abs(x), abs(y), 1e-300)
        except TypeError:
            return False
    return x == y


def guarded(f):
    try:
        return f()
    except CaseTimeout:
        raise
    except Exception as e:  # noqa: BLE001
        return f"EXC {type(e).__name__}: {str(e)[:80]}"


# ---------------------------------------------------------------------------
# object kinds


class OutOfDomain(Exception):
    pass


def setup_kind(kind, rules, V):
    """returns (grammar, make, ops, apply_op, dump)"""
    n = len(rules)
    sv = sorted(V, key=repr)
    A, B = (sv + sv)[:2]
    ctx_p = list(strings_upto(sv, 2)) + [(A, A, B), (A, B, B)]
    V2 = sorted(set(V) | {EOS}, key=repr)
    ctx_l = list(strings_upto(V2, 2)) + [(A, A, B), (A, B, EOS)]
    if kind in ("earley", "cky"):
        g = gram.build(rules, Poly, gram.poly_weights(n), V=V)
    elif kind in ("boollm-earley", "boollm-cky"):
        g = gram.build(rules, Boolean, [Boolean.one] * n, V=V)
    else:
        from vf.props.C08 import finite_derivations
        from vf.ref_cfg import ref_totals

        if kind != "ckylm" and finite_derivations(rules, V, everywhere=True) is not None:
            W = [FRACW[i % 6] for i in range(n)]
        else:
            W = None
            for scale in (1.0, 0.5, 0.25, 0.1):
                cand = [FLOATW[i % 6] * scale for i in range(n)]
                try:
                    Z = ref_totals([(w, h, b) for w, (h, b) in zip(cand, rules)], V, Float, tol=1e-16, maxit=3000)
                    if all(v < 1e3 for v in Z.values()):
                        W = cand
                        break
                except (NoConvergence, OverflowError):
                    pass
            if W is None:
                raise OutOfDomain("no convergent weighting")
        g = gram.build(rules, Float, W, V=V)

    if kind == "earley":
        make = lambda: earley.Earley(g)  # noqa: E731
    elif kind == "rescaled":
        make = lambda: earley_rescaled.Earley(g)  # noqa: E731
    elif kind == "cky":
        gc = g.cnf
        make = lambda: cky.IncrementalCKY(gc)  # noqa: E731
    elif kind == "earleylm":
        make = lambda: earley.EarleyLM(g)  # noqa: E731
    elif kind == "rescaledlm":
        make = lambda: earley_rescaled.EarleyLM(g)  # noqa: E731
    elif kind == "ckylm":
        make = lambda: cky.CKYLM(g)  # noqa: E731
    elif kind == "boollm-earley":
        make = lambda: BoolCFGLM(g, alg="earley")  # noqa: E731
    elif kind == "boollm-cky":
        make = lambda: BoolCFGLM(g, alg="cky")  # noqa: E731
    else:
        raise KeyError(kind)

    if kind in ("earley", "rescaled", "cky"):
        ops = [("call", c) for c in ctx_p] + [("ntw", c) for c in ctx_p] + [("chart", (A, B))] + [("clear", None)]

        def apply_op(obj, op):
            o, c = op
            if o == "call":
                return guarded(lambda: norm(obj(c)))
            if o == "ntw":
                if kind == "cky":
                    return guarded(lambda: norm(dict(obj.p_next(c))))
                return guarded(lambda: norm(dict(obj.next_token_weights(obj.chart(c)))))
            if o == "chart":
                guarded(lambda: obj.chart(c))
                return ("val", None)
            obj.clear_cache()
            return ("val", None)

    else:
        ops = [("p", c) for c in ctx_l] + [("lm", x) for x in list(strings_upto(sv, 2))] + [("clear", None)]

        def apply_op(obj, op):
            o, c = op
            if o == "p":
                r = guarded(lambda: obj.p_next(c))
                if isinstance(r, str):
                    return r
                if kind.startswith("boollm"):
                    return ("val", tuple(sorted(r.items(), key=repr)))  # exact key set for the mask
                return norm(dict(r))
            if o == "lm":
                return guarded(lambda: norm(obj(c + (EOS,))))
            obj.clear_cache()
            return ("val", None)

    def dump(obj):
        try:
            return dump_parser(parser_of(obj))
        except Exception:  # noqa: BLE001
            _OPAQUE[0] += 1
            return ("opaque", _OPAQUE[0])

    return g, make, ops, apply_op, dump


def setup_cfg(rules, V):
    n = len(rules)
    W = gram.poly_weights(n)
    strs = list(strings_upto(sorted(V), 2))

    def make():
        return gram.build(rules, Poly, W, V=V)

    def lang(h):
        """weighted language of a grammar result, by the reference evaluator (names differ between runs)."""
        if isinstance(h, str):
            return h
        rr = rules_of(h)
        out = {}
        for x in strings_upto(sorted(h.V, key=repr), 2):
            try:
                w = ref_weight(rr, h.S, h.V, Poly, x, maxit=40)
            except NoConvergence:
                w = "diverges"
            if w != Poly.zero:
                out[x] = w
        return ("chart", out)

    first_nt = None
    for i, (h, b) in enumerate(rules):
        for k, y in enumerate(b):
            if y not in V and first_nt is None:
                first_nt = (i, k)
    ops = (
        [("call", x) for x in strs]
        + [("prefix_weight", x) for x in strs[:3]]
        + [(name, None) for name in ("cnf", "trim", "cotrim", "prefix_grammar", "derivative_a", "agenda", "renumber", "nullaryremove", "unaryremove", "unarycycleremove", "binarize", "separate_start", "separate_terminals", "matmul_a", "add_EOS", "to_bytes", "getitem_S", "materialize2", "truncate1")]
        + ([("unfold", first_nt)] if first_nt else [])
    )

    def apply_op(g, op):
        o, c = op
        if o == "call":
            return guarded(lambda: norm(g(c)))
        if o == "prefix_weight":
            return guarded(lambda: norm(g.prefix_weight(c)))
        if o == "agenda":
            return guarded(lambda: norm({k: v for k, v in g.agenda().items() if k not in g.V}))
        if o == "materialize2":
            return guarded(lambda: norm(dict(g.materialize(2))))
        f = {
            "cnf": lambda: g.cnf,
            "trim": g.trim,
            "cotrim": g.cotrim,
            "prefix_grammar": lambda: g.prefix_grammar,
            "derivative_a": lambda: g.derivative("a"),
            "renumber": g.renumber,
            "nullaryremove": g.nullaryremove,
            "unaryremove": g.unaryremove,
            "unarycycleremove": g.unarycycleremove,
            "binarize": g.binarize,
            "separate_start": g.separate_start,
            "separate_terminals": g.separate_terminals,
            "matmul_a": lambda: g @ ("a",),
            "add_EOS": lambda: add_EOS(g),
            "to_bytes": lambda: g.to_bytes(),
            "getitem_S": lambda: g["S"],
            "truncate1": lambda: g.truncate_length(1),
            "unfold": lambda: g.unfold(*c),
        }[o]
        res = guarded(f)
        ans = lang(res)
        if o in ("trim", "cotrim") and not isinstance(res, str):
            # these keep the names: the SET of rules kept is part of the answer (trim drops unreachable
            # symbols, cotrim keeps them - the weighted language cannot tell them apart)
            ans = ans + (tuple(sorted(repr((r.head, tuple(r.body))) for r in res.rules)),)
        return ans

    def dump(g, depth=0):
        d = getattr(g, "__dict__", {})
        cached = []
        for k in ("rhs", "cnf", "_cnf", "prefix_grammar"):
            if k in d:
                v = d[k]
                cached.append((k, dump(v, depth + 1) if isinstance(v, CFG) and depth < 3 and v is not g else True))
        tc = tuple((None if t is None else ("self" if t is g else dump(t, depth + 1) if depth < 3 else True)) for t in g._trim_cache)
        return (canon_rules(g), tuple(cached), tc)

    return None, make, ops, apply_op, dump


def run_hist(case):
    rules = case_rules(case)
    V = case_terms(case)
    kind = case["kind"]
    inp0 = {"rules": case["rules"], "object": kind}
    if case.get("symmap"):
        inp0["symbols"] = case["symmap"]
    fails = []
    if kind == "cfg":
        g, make0, ops, apply_op, dump = setup_cfg(rules, V)
        holder = {}

        def make():
            holder["g"] = make0()
            holder["snap"] = snap(holder["g"])
            return holder["g"]

        def invariant(obj):
            return None if snap(holder["g"]) == holder["snap"] else f"grammar mutated: {snap(holder['g'])}"

        depth = min(case["hdepth"], 2)
    else:
        try:
            g, make, ops, apply_op, dump = setup_kind(kind, rules, V)
            make()
        except CaseTimeout:
            raise
        except OutOfDomain:
            return {"evals": 0, "nontrivial": 0, "fails": [], "counters": {"skipped_out_of_domain": 1}}
        except Exception as e:  # noqa: BLE001
            return {"evals": 1, "nontrivial": 0, "fails": [_fail(f"{kind}: construct", inp0, f"EXC {type(e).__name__}: {e}", "object")], "counters": {}}
        s0 = snap(g)

        def invariant(obj):
            return None if snap(g) == s0 else f"grammar mutated: {snap(g)}"

        depth = case["hdepth"]
    from genlm.grammar import cfg as cfgmod

    def make_det():
        # own the process-global name counter: every (re)construction starts from the
        # same value, so set-iteration orders over generated names are reproducible
        cfgmod._gen_nt.i = 0
        return make()

    res = eh.explore(make_det, ops, apply_op, dump, depth, same, invariant, max_states=cfgp()['max_states'])
    seen = set()
    for hist, i, have, want in res["violations"]:
        pred = f"{kind}: answer independent of query history" if want != "grammar unchanged" else f"{kind}: queries do not change the grammar"
        key = (pred, repr(ops[i]))
        if key in seen:
            continue
        seen.add(key)
        fails.append(_fail(pred, dict(inp0, history=[repr(ops[j]) for j in hist], query=repr(ops[i])), have, want))
    return {
        "evals": res["transitions"],
        "nontrivial": int(res["states"] > 1),
        "fails": fails,
        "counters": {"executions": res["transitions"], "hist_states": res["states"], "hist_transitions": res["transitions"], "hist_capped": int(res["capped"]), "max_hist_depth": res["max_depth"]},
    }


def run_long(case):
    p = cfgp()
    kind = case["kind"]
    fam = case["family"]
    if fam == "right-rec":
        wr = [(0.5, "S", ("a", "S")), (0.5, "S", ("a",))]
        seqf = lambda n: ("a",) * n  # noqa: E731
    else:
        wr = [(0.4, "S", ("a", "S", "b")), (0.6, "S", ())]
        seqf = lambda n: ("a",) * (n - n // 2) + ("b",) * (n // 2)  # noqa: E731
    V = {"a", "b"}
    rules = [(h, b) for _, h, b in wr]
    W = [w for w, _, _ in wr]
    if kind.startswith("boollm"):
        g = gram.build(rules, Boolean, [Boolean.one] * len(rules), V=V)
    else:
        g = gram.build(rules, Float, W, V=V)
    mk = {
        "earley": lambda: earley.Earley(g),
        "rescaled": lambda: earley_rescaled.Earley(g),
        "cky": lambda: cky.IncrementalCKY(g.cnf),
        "earleylm": lambda: earley.EarleyLM(g),
        "rescaledlm": lambda: earley_rescaled.EarleyLM(g),
        "boollm-earley": lambda: BoolCFGLM(g),
    }[kind]

    def query(obj, x):
        if kind in ("earley", "rescaled", "cky"):
            return norm(obj(x))
        return norm(dict(obj.p_next(x)))

    fails = []
    evals = 0
    lens = p["long"] if kind != "cky" else tuple(n for n in p["long"] if n <= p["cky_long"]) + (p["cky_long"],)
    inp0 = {"family": fam, "object": kind}
    for n in sorted(set(lens)):
        x = seqf(n)
        # warm: the same context reached incrementally (chart extended 40 tokens at a time)
        warm = mk()
        for k in range(0, n + 1, 40):
            guarded(lambda: parser_of(warm).chart(x[:k]))
        w_ans = guarded(lambda: query(warm, x))
        cold = guarded(lambda: query(mk(), x))
        evals += 2
        if not same(cold, w_ans):
            fails.append(_fail(f"{kind}: cold query on a long context == warm (incremental) answer", dict(inp0, n=n), cold, w_ans))
        # a second fresh object, queried on a *sibling* first, then cold on x
        other = mk()
        guarded(lambda: query(other, x[: n // 2] + ("b", "a")))
        cold2 = guarded(lambda: query(other, x))
        evals += 1
        if not same(cold2, w_ans):
            fails.append(_fail(f"{kind}: query after a sibling context == warm answer", dict(inp0, n=n), cold2, w_ans))
    return {"evals": evals, "nontrivial": 1, "fails": fails, "counters": {"executions": evals, "long_queries": evals}}


INTERLEAVE_POOLS = [
    [["S", ["a"]], ["S", ["S", "S"]], ["S", ["A"]], ["A", ["S"]], ["A", []]],
    [["S", ["A", "b"]], ["A", ["a"]], ["A", ["A"]], ["A", []], ["S", ["S", "A"]]],
    [["S", ["a", "S"]], ["S", []], ["B", ["b"]], ["S", ["B"]], ["B", ["S", "B"]]],
]


def run_interleave(case):
    """Histories that interleave cfg.add(rule) with queries on ONE grammar object: every
    answer must be the answer of a fresh grammar holding the same rules."""
    pool = [(h, tuple(b)) for h, b in case["pool"]]
    V = {"a", "b"}
    W = gram.poly_weights(len(pool))
    strs = [(), ("a",), ("a", "b")]

    def make():
        return CFG(Poly, "S", set(V))

    def apply_builder(g, i):
        h, b = pool[i]
        g.add(W[i], h, *b)

    def lang(h):
        if isinstance(h, str):
            return h
        rr = rules_of(h)
        out = {}
        for x in strings_upto(sorted(h.V, key=repr), 2):
            try:
                w = ref_weight(rr, h.S, h.V, Poly, x, maxit=40)
            except NoConvergence:
                w = "diverges"
            if w != Poly.zero:
                out[x] = w
        return ("chart", out)

    def unary_cycle(h):
        from vf.props.C07 import post_unary_cycle

        return bool(post_unary_cycle(h))

    queries = (
        [("call", x) for x in strs]
        + [("prefix_weight", ("a",))]
        + [(n, None) for n in ("cnf", "trim", "cotrim", "prefix_grammar", "agenda", "has_unary_cycle", "unaryremove", "unarycycleremove", "nullaryremove", "renumber", "derivative_a", "rhs", "materialize2", "earley_a", "binarize", "add_EOS", "boollm_mask", "to_bytes", "getitem_S", "treesum", "truncate1")]
    )

    def apply_query(g, q):
        o, c = q
        if o == "call":
            return guarded(lambda: norm(g(c)))
        if o == "prefix_weight":
            return guarded(lambda: norm(g.prefix_weight(c)))
        if o == "agenda":
            return guarded(lambda: norm({k: v for k, v in g.agenda().items() if k not in g.V}))
        if o == "has_unary_cycle":
            return guarded(lambda: ("val", g.has_unary_cycle()))
        if o == "rhs":
            return guarded(lambda: ("val", sorted((repr(k), sorted(map(repr, v))) for k, v in g.rhs.items() if v)))
        if o == "materialize2":
            return guarded(lambda: norm(dict(g.materialize(2))))
        if o == "earley_a":
            return guarded(lambda: norm(earley.Earley(g)(("a",))))
        if o == "boollm_mask":
            return guarded(lambda: ("val", tuple(sorted(BoolCFGLM(g.map_values(lambda w: Boolean(w != Poly.zero), Boolean)).p_next(()).items(), key=repr))))
        if o == "treesum":
            return guarded(lambda: norm(g.treesum()))
        if o in ("add_EOS", "to_bytes", "getitem_S", "truncate1"):
            ff = {"add_EOS": lambda: add_EOS(g), "to_bytes": g.to_bytes, "getitem_S": lambda: g["S"], "truncate1": lambda: g.truncate_length(1)}[o]
            return lang(guarded(ff))
        if o == "unarycycleremove":
            r = guarded(g.unarycycleremove)
            if not isinstance(r, str) and unary_cycle(r):
                return "result has a unary cycle"
            return lang(r)
        f = {
            "cnf": lambda: g.cnf,
            "trim": g.trim,
            "cotrim": g.cotrim,
            "prefix_grammar": lambda: g.prefix_grammar,
            "unaryremove": g.unaryremove,
            "nullaryremove": g.nullaryremove,
            "renumber": g.renumber,
            "derivative_a": lambda: g.derivative("a"),
            "binarize": g.binarize,
        }[o]
        return lang(guarded(f))

    from genlm.grammar import cfg as cfgmod

    def make_det():
        cfgmod._gen_nt.i = 0
        return make()

    res = eh.explore_interleaved(make_det, list(range(len(pool))), queries, apply_builder, apply_query, same, depth=4, max_queries=2)
    fails = []
    seen = set()
    for hist, have, want in res["violations"]:
        q = queries[hist[-1][1]]
        first_q = next(queries[i] for k, i in hist if k == "q")
        key = (repr(q), repr(first_q))
        if key in seen:
            continue
        seen.add(key)
        pretty = [("add " + repr(case["pool"][i])) if k == "b" else repr(queries[i]) for k, i in hist]
        fails.append(_fail("cfg: answer after add(rule) equals a fresh grammar's (no stale cache)", {"object": "cfg", "history": pretty}, have, want))
    return {"evals": res["transitions"], "nontrivial": 1, "fails": fails, "counters": {"executions": res["transitions"], "hist_states": res["histories"], "hist_transitions": res["transitions"]}}


def run_case(case):
    return {"hist": run_hist, "long": run_long, "interleave": run_interleave}[case["mode"]](case)
