"""C19 - character- and byte-level grammars built from Lark grammars."""
import itertools
import re
import warnings

from vf.gram import short
from vf.runner import CaseTimeout

from genlm.grammar.lark_interface import LarkStuff

ID = "C19"
LEVEL = "model_checking"
TIER = "quick"

# terminal definitions: (lark source, characters it mentions)
TERMS_Q = [('"a"', "a"), ('"é"', "é"), ('"ü"', "ü"), ('"ß"i', "ßsS"), ("/[ab]+/", "ab"), ('"👋"', "👋"), ('"a"i', "aA"), ("/b[cé]*/", "bcé"), ("/[^a]/", "ab")]
TERMS_T = TERMS_Q + [('"ab"', "ab"), ('"€"', "€"), ("/é?ü/", "éü"), ('"é"i', "éÉ")]
SHAPES = [
    ("X", "start: X"),
    ("XY", "start: X Y"),
    ("X?Y", "start: X? Y"),
    ("X*", "start: X*"),
    ("X+Y", "start: X+ Y"),
    ("X|Y", "start: X | Y"),
    ("XY*", "start: X Y*"),
    ("(XY)+", "start: (X Y)+"),
    ("x+", "start: x+\nx: X | Y"),
    ("rec", "start: X start | Y"),
    ("y|yZ", "start: y | y X\ny: Y"),
    ("nested?", "start: x? Y\nx: X x | X"),
]
IGNORES = [None, '" "', "/x+/", ('" "', "/x+/"), ("/x+/", '" "')]  # a pair = two %ignore directives


def cfgp():
    if TIER == "thorough":
        return dict(terms=TERMS_T, charlen=4, bytelen=5, ignores=IGNORES)
    return dict(terms=TERMS_Q, charlen=3, bytelen=4, ignores=IGNORES[:2] + IGNORES[3:])


def init_worker(tier):
    global TIER
    TIER = tier
    warnings.simplefilter("ignore")


def grammars():
    p = cfgp()
    terms = p["terms"]
    out = []
    transitions = 0
    for (x, cx), (y, cy) in itertools.product(terms, repeat=2):
        for sname, shape in SHAPES:
            if "Y" not in shape and (y, cy) != terms[0]:
                continue
            for ign in p["ignores"]:
                transitions += 1
                if TIER != "thorough":
                    # quick: every shape for a fixed set of sharp pairs, plus all pairs for four shapes
                    sharp_pair = (x, y) in (('"é"', '"ü"'), ('"ü"', '"é"'), ('"ß"i', '"a"'), ('"a"', '"ß"i'), ("/[ab]+/", '"a"'), ('"👋"', '"é"'), ('"a"i', "/b[cé]*/"), ('"é"', '"é"'))
                    if not sharp_pair and sname not in ("XY", "X|Y", "x+", "X*"):
                        continue
                    if ign is not None and not sharp_pair and sname != "XY":
                        continue
                if isinstance(ign, tuple):
                    if TIER != "thorough" and not (sharp_pair and sname in ("XY", "X|Y", "X*")):
                        continue
                    igsrc = f"IGN: {ign[0]}\nIGB: {ign[1]}\n%ignore IGN\n%ignore IGB\n"
                    igchars = " x"
                else:
                    igsrc = f"IGN: {ign}\n%ignore IGN\n" if ign else ""
                    igchars = " " if ign == '" "' else "x" if ign else ""
                src = shape + f"\nX: {x}\n" + (f"Y: {y}\n" if "Y" in shape else "") + igsrc
                chars = "".join(sorted(set(cx + (cy if "Y" in shape else "") + igchars)))
                out.append({"src": src, "chars": chars, "shape": sname})
                if sname == "XY":
                    # configurations of the same grammar: terminal names that are prefixes of each other with a
                    # numeric suffix (TOK / TOK_1), and an ignored terminal that is ALSO used explicitly in a rule
                    out.append({"src": src.replace("X", "TOK_1").replace("Y", "TOK").replace("IGN", "TOK_1_0"), "chars": chars, "shape": sname + ":names"})
                    if ign:
                        out.append({"src": src.replace("start: X Y", "start: X IGN Y"), "chars": chars, "shape": sname + ":explicit-ignore"})
    return out, transitions


def plan(tier, seed):
    global TIER
    TIER = tier
    p = cfgp()
    gs, tr = grammars()
    return {
        "cases": gs,
        "states": len(gs),
        "transitions": tr,
        "chunk": 2,
        "rule": (
            f"E1: Lark grammars built from templates: {len(SHAPES)} rule shapes (optional, star, plus, alternation, grouping, a second rule, recursion) x ordered pairs of {len(p['terms'])} terminal definitions "
            f"(string, regex, case-insensitive incl. \"ß\"i, several multi-byte characters sharing a first byte) x ignore directive in {p['ignores']}; both recursion directions x char / byte level. "
            f"For each grammar the COMPLETE language of the produced grammar up to {p['charlen']} characters ({p['bytelen']} bytes) is computed bottom-up by own set enumeration over the grammar's rules and compared with the substitution semantics: "
            "Lark's own compiled rule list with every terminal replaced by the set of strings that re.fullmatch its pattern, optionally preceded by one match of an ignored terminal; byte level: exactly the UTF-8 encodings "
            "(so truncated and recombined multi-byte sequences must be absent); N and V disjoint. non-trivial = the language within the bound is non-empty and not everything"
        ),
        "bounds": {"charlen": p["charlen"], "bytelen": p["bytelen"], "terminals": [t for t, _ in p["terms"]]},
        "assumptions": ["candidate alphabet = the characters mentioned by the grammar plus one foreign character; oracle = re.fullmatch on Lark's compiled terminal patterns"],
    }


def _fail(pred, inp, obs, exp):
    return {"pred": pred, "input": inp, "observed": short(obs), "expected": short(exp)}


def lang_sets(rules, base, cap, size=len, empty=""):
    """Least fixed point: for each nonterminal the set of all strings of size <= cap it derives.
    rules: [(head, body)], base: {terminal: set of strings}."""
    L = {}
    changed = True
    while changed:
        changed = False
        for h, body in rules:
            cur = {empty}
            for y in body:
                ys = base[y] if y in base else L.get(y, ())
                nxt = set()
                for u in cur:
                    lu = size(u)
                    for v in ys:
                        if lu + size(v) <= cap:
                            nxt.add(u + v)
                cur = nxt
                if not cur:
                    break
            if cur:
                have = L.setdefault(h, set())
                if not cur <= have:
                    have |= cur
                    changed = True
    return L


def oracle_sets(L, alphabet, cap, size):
    """Substitution semantics on Lark's own compiled objects."""
    try:
        rules = [(r.origin.name, tuple(y.name for y in r.expansion)) for r in L.rules]
    except AttributeError:
        rules = [(r.lhs.name, tuple(y.name for y in r.rhs)) for r in L.rules]
    pats = {t.name: re.compile(t.pattern.to_regexp()) for t in L.terminals}
    # all candidate strings within the cap
    strs = [""]
    frontier = [""]
    while frontier:
        nf = []
        for s in frontier:
            for ch in alphabet:
                t = s + ch
                if size(t) <= cap:
                    nf.append(t)
        strs += nf
        frontier = nf
    tsets = {T: {s for s in strs if rx.fullmatch(s)} for T, rx in pats.items()}
    ign = set()
    for n in L.ignore_terms:
        ign |= tsets[n]
    base = {}
    for T in pats:
        if L.ignore_terms and T not in L.ignore_terms:
            withpre = set(tsets[T])
            for u in ign:
                for v in tsets[T]:
                    if size(u) + size(v) <= cap:
                        withpre.add(u + v)
            base[T] = withpre
        else:
            base[T] = tsets[T]
    Ls = lang_sets(rules, base, cap, size=size)
    return Ls.get("start", set()), strs


def produced_sets(g, allowed, cap, to_piece, size, empty):
    rules = []
    base = {}
    for r in g.rules:
        ok = True
        for y in r.body:
            if y in g.V:
                if y not in allowed:
                    ok = False
                    break
                base[y] = {to_piece(y)}
        if ok:
            rules.append((r.head, tuple(r.body)))
    Ls = lang_sets(rules, base, cap, size=size, empty=empty)
    return Ls.get(g.S, set())


def run_case(case):
    p = cfgp()
    src = case["src"]
    inp0 = {"grammar": src}
    fails = []
    evals = 0
    try:
        L = LarkStuff(src)
    except CaseTimeout:
        raise
    except Exception as e:  # noqa: BLE001
        return {"evals": 1, "nontrivial": 0, "fails": [_fail("LarkStuff: construct", inp0, f"EXC {type(e).__name__}: {e}", "grammar")], "counters": {}}
    foreign = "z"
    alphabet = sorted(set(case["chars"]) | {foreign})
    charset = set(alphabet)
    want_c, strs_c = oracle_sets(L, alphabet, p["charlen"], len)
    bsize = lambda s: len(s.encode("utf-8"))  # noqa: E731
    want_b_chars, strs_b = oracle_sets(L, alphabet, p["bytelen"], bsize)
    want_b = {s.encode("utf-8") for s in want_b_chars}
    allowed_bytes = {b for ch in alphabet for b in ch.encode("utf-8")}
    nontriv = int(0 < len(want_c) < len(strs_c))
    for rec in ("right", "left"):
        for level in ("char", "byte"):
            try:
                g = (L.char_cfg if level == "char" else L.byte_cfg)(charset=charset, recursion=rec)
            except CaseTimeout:
                raise
            except Exception as e:  # noqa: BLE001
                fails.append(_fail(f"{level}_cfg: construct", dict(inp0, recursion=rec), f"EXC {type(e).__name__}: {e}", "grammar"))
                continue
            evals += 1
            if set(g.N) & set(g.V):
                fails.append(_fail("names of terminals and nonterminals never collide", dict(inp0, recursion=rec, level=level), sorted(map(repr, set(g.N) & set(g.V)))[:4], "disjoint"))
            bad_terms = [y for r in g.rules for y in r.body if y not in g.V and y not in g.N]
            if bad_terms:
                fails.append(_fail("every body symbol is a terminal of V or a defined nonterminal", dict(inp0, recursion=rec, level=level), sorted(map(repr, set(bad_terms)))[:4], "none"))
            if level == "char":
                multi = [y for y in g.V if not (isinstance(y, str) and len(y) == 1)]
                if multi:
                    fails.append(_fail("character-level grammar has single-character terminals", dict(inp0, recursion=rec), sorted(map(repr, multi))[:4], "single characters"))
                have = produced_sets(g, {y for y in g.V if isinstance(y, str) and all(c in charset for c in y)}, p["charlen"], lambda y: y, len, "")
                want = want_c
            else:
                have = produced_sets(g, {y for y in g.V if y in allowed_bytes}, p["bytelen"], lambda y: bytes([y]), len, b"")
                want = want_b
            if have != want:
                extra = sorted(have - want)[:4]
                missing = sorted(want - have)[:4]
                fails.append(_fail(f"{level}-level grammar accepts exactly the substitution language", dict(inp0, recursion=rec, level=level), {"accepted_but_should_not": extra, "missing": missing}, "equal languages"))
    return {"evals": evals, "nontrivial": nontriv, "fails": fails, "counters": {"executions": evals, "oracle_language_size": len(want_c)}}
