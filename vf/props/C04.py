"""C04 - grammar language models are the exact left-to-right factorisation."""
import math
from fractions import Fraction

from vf import gram, engine_sched as es
from vf.gram import case_rules, case_terms, short
from vf.props.C08 import finite_derivations
from vf.ref_cfg import NoConvergence, ref_prefix_weight, ref_totals, ref_weight
from vf.runner import CaseTimeout
from vf.spaces import strings_upto

from genlm.grammar.cfglm import EOS, locally_normalize
from genlm.grammar.parse import cky, earley, earley_rescaled
from genlm.grammar.semiring import Float

ID = "C04"
LEVEL = "model_checking"
TIER = "quick"
FLOATW = [0.5, 1 / 3, 0.2, 1 / 7, 0.25, 0.3]
FRACW = [Fraction(1, 2), Fraction(1, 3), Fraction(1, 5), Fraction(1, 7), Fraction(1, 4), Fraction(3, 10)]
BACKENDS = (("earley", earley.EarleyLM), ("rescaled", earley_rescaled.EarleyLM), ("cky", cky.CKYLM))
S2 = "<S'>"


def cfgp():
    if TIER == "thorough":
        return dict(depth=3, ctxlen=3, sched_depth=3, sched_bound=3, longn=1200, extra=True)
    return dict(depth=3, ctxlen=3, sched_depth=2, sched_bound=2, longn=400, extra=False)


def init_worker(tier):
    global TIER
    TIER = tier


LONG = [
    # name, rules (w, head, body), closed form for p_next after a^n b^m ...
    ("right-rec", [(0.5, "S", ("a", "S")), (0.5, "S", ("a",))]),
    ("left-rec", [(0.7, "S", ("S", "a")), (0.3, "S", ("a",))]),
    ("anbn", [(0.4, "S", ("a", "S", "b")), (0.6, "S", ())]),
    ("unary+rec", [(1.0, "S", ("A",)), (0.9, "A", ("a", "A")), (0.1, "A", ("b",))]),
    # un-normalised, very small per-token weights: plain weights underflow after ~100 / ~10 tokens
    ("tiny", [(1e-3, "S", ("a", "S")), (2e-3, "S", ("b", "S")), (1.0, "S", ())]),
    ("very-tiny", [(1e-30, "S", ("a", "S")), (3e-30, "S", ("b", "S")), (1.0, "S", ())]),
]


def plan(tier, seed):
    global TIER
    TIER = tier
    p = cfgp()
    base, nstates, ntrans = gram.grammar_cases(p["depth"])
    cases = []
    for c in base:
        cases.append(dict(c, mode="lm", norm=False))
        cases.append(dict(c, mode="lm", norm=True))
        if len(c["rules"]) <= p["sched_depth"] or c["name"].startswith("sharp"):
            cases.append(dict(c, mode="sched"))
    if p["extra"]:
        b3, s3, t3 = gram.grammar_cases(2, heads=("S", "A", "B"), with_sharp=False)
        for c in b3:
            cases.append(dict(c, mode="lm", norm=True))
        nstates += s3
        ntrans += t3
    for name, _ in LONG:
        cases.append({"name": "long:" + name, "rules": [], "mode": "long", "family": name})
    return {
        "cases": cases,
        "states": nstates + len(LONG),
        "transitions": ntrans + len(LONG) * p["longn"],
        "chunk": 6,
        "rule": (
            f"E1: BFS over cfg.add(rule) sequences to depth {p['depth']} + sharp grammars, restricted by the reference to finite positive total weight, two weightings (as given / locally normalised); "
            f"in every state every context over V+EOS of length <= {p['ctxlen']} x back-ends earley, rescaled earley, cky: p_next(ctx)[t] = pw(ctx.t)/pw(ctx) with the reference prefix fixed point on the EOS-wrapped grammar, "
            "sums to one on viable contexts, all-zero on non-viable ones, lm(x.EOS) = w(x)/Z, un-normalised next-token weight = parser weight of ctx.t (earley, cky); exact Fraction pass on the finite-derivation sub-space; "
            f"sched: E2 every agenda tie-break resolution (<= {p['sched_bound']} deviations) for both Earley LMs; long: parametric families fed incrementally to {p['longn']} tokens, rescaled p_next and logp vs closed forms. "
            "non-trivial = total weight positive and at least one context of length >= 1 is viable"
        ),
        "bounds": p,
        "assumptions": ["float comparisons rel 1e-5 + abs 1e-8 on conditionals (library fixed points stop at absolute 1e-12)", "non-convergent weightings are skipped and counted"],
    }


def _fail(pred, inp, obs, exp):
    return {"pred": pred, "input": inp, "observed": short(obs), "expected": short(exp)}


def _call(f, *a):
    try:
        return f(*a)
    except CaseTimeout:
        raise
    except Exception as e:  # noqa: BLE001
        return f"EXC {type(e).__name__}: {e}"


def close(a, b, exact=False):
    if exact:
        return a == b
    return gram.fclose(a, b, rel=1e-5, abs_=1e-8)


class Ref:
    """Reference conditional distribution from prefix weights of the EOS-wrapped grammar."""

    def __init__(self, wrules, V, exact):
        self.V2 = set(V) | {EOS}
        self.rules = list(wrules) + [(1, S2, ("S", EOS))]
        self.tol = 0 if exact else 1e-16
        self.totals = ref_totals(self.rules, self.V2, Float, tol=self.tol, maxit=5000)
        self.cache = {}

    def pw(self, ctx):
        if ctx not in self.cache:
            self.cache[ctx] = ref_prefix_weight(self.rules, S2, self.V2, Float, ctx, tol=self.tol, maxit=5000, totals=self.totals)
        return self.cache[ctx]

    def p_next(self, ctx):
        if EOS in ctx:
            return None  # nothing can follow end-of-sequence: every weight must be zero
        z = self.pw(ctx)
        if z == 0:
            return None
        return {t: self.pw(ctx + (t,)) / z for t in self.V2}


def _weights(rules, V, norm, W):
    """Returns (library grammar, reference weighted rules) or None if out of domain."""
    wrules = [(w, h, b) for w, (h, b) in zip(W, rules)]
    exact = isinstance(W[0], Fraction) if W else False
    try:
        Z = ref_totals(wrules, V, Float, tol=0 if exact else 1e-16, maxit=5000)
    except (NoConvergence, OverflowError):
        return None
    if not (Z.get("S", 0) > 0) or any(v > 1e6 for v in Z.values()):
        return None
    g = gram.build(rules, Float, W, V=V)
    if norm:
        g = locally_normalize(g)
        wrules = [(w * _prod(Z, b, V) / Z[h], h, b) for w, h, b in wrules if Z.get(h, 0) != 0]
    return g, wrules, Z.get("S")


def _prod(Z, body, V):
    v = 1
    for y in body:
        if y not in V:
            v = v * Z.get(y, 0)
    return v


def _check_lms(g, wrules, V, exact, ctxlen, inp0, fails):
    evals = 0
    viable_nonempty = 0
    try:
        ref = Ref(wrules, V, exact)
        Z = ref.pw(())
    except (NoConvergence, OverflowError):
        return 0, 0
    lms = {}
    for name, cls in BACKENDS:
        lm = _call(cls, g)
        if isinstance(lm, str):
            fails.append(_fail(f"{name}: construct", dict(inp0, backend=name), lm, "language model"))
        else:
            lms[name] = lm
    for ctx in strings_upto(sorted(ref.V2), ctxlen):
        try:
            want = ref.p_next(ctx)
        except NoConvergence:
            continue
        if want is not None and ctx:
            viable_nonempty += 1
        for name, lm in lms.items():
            have = _call(lm.p_next, ctx)
            evals += 1
            if isinstance(have, str):
                fails.append(_fail(f"{name}: p_next == pw(ctx.t)/pw(ctx)", dict(inp0, backend=name, context=list(ctx)), have, want))
                continue
            if want is None:
                if any(have[t] != 0 for t in ref.V2):
                    fails.append(_fail(f"{name}: non-viable context gives all-zero weights", dict(inp0, backend=name, context=list(ctx)), dict(have), "all zero"))
                continue
            ok = all(close(have[t], want[t], exact and name != "cky") for t in ref.V2) and close(sum(have[t] for t in ref.V2), 1, False)
            extra = [t for t in have if t not in ref.V2 and have[t] != 0]
            if not ok or extra:
                fails.append(_fail(f"{name}: p_next == pw(ctx.t)/pw(ctx)", dict(inp0, backend=name, context=list(ctx)), dict(have), want))
            # un-normalised next-token weights equal the parser's weight of ctx.t
            if name in ("earley", "cky") and not (EOS in ctx):
                if name == "earley":
                    un = _call(lambda: lm.model.next_token_weights(lm.model.chart(ctx)))
                else:
                    un = _call(lambda: lm.model.p_next(ctx))
                for t in sorted(ref.V2):
                    pt = _call(lm.model, ctx + (t,))
                    evals += 1
                    wpt = ref.pw(ctx + (t,))
                    if isinstance(un, str) or isinstance(pt, str) or not close(un[t], pt, exact and name != "cky") or not close(pt, wpt, exact and name != "cky"):
                        fails.append(_fail(f"{name}: next_token_weights[t] == parser(ctx.t) == prefix weight", dict(inp0, backend=name, context=list(ctx), token=t), (un if isinstance(un, str) else un[t], pt), wpt))
    # chain rule: lm(x.EOS) = w(x)/Z
    for x in strings_upto(sorted(V), min(ctxlen, 3)):
        try:
            want = ref.pw(x + (EOS,)) / Z
        except NoConvergence:
            continue
        for name, lm in lms.items():
            have = _call(lm, x + (EOS,))
            evals += 1
            if isinstance(have, str) or not close(have, want, exact and name != "cky"):
                fails.append(_fail(f"{name}: lm(x.EOS) == w(x)/Z", dict(inp0, backend=name, x=list(x)), have, want))
    # multi-token extensions and sampling bookkeeping of the LM base class
    for x in strings_upto(sorted(V), 2):
        ext = x + (EOS,)
        try:
            want = ref.pw(ext) / Z
            want_tail = (ref.pw(ext) / ref.pw(x[:1])) if len(x) >= 1 and ref.pw(x[:1]) != 0 else None
        except NoConvergence:
            continue
        for name, lm in lms.items():
            have = _call(lm.p_next_seq, (), ext)
            evals += 1
            if isinstance(have, str) or not close(have, want, exact and name != "cky"):
                fails.append(_fail(f"{name}: p_next_seq((), x.EOS) == w(x)/Z", dict(inp0, backend=name, x=list(x)), have, want))
            if want_tail is not None:
                have = _call(lm.p_next_seq, x[:1], x[1:] + (EOS,))
                evals += 1
                if isinstance(have, str) or not close(have, want_tail, exact and name != "cky"):
                    fails.append(_fail(f"{name}: p_next_seq(ctx, extension) == pw(ctx.extension)/pw(ctx)", dict(inp0, backend=name, x=list(x)), have, want_tail))
            if want != 0:
                script = list(ext)

                def draw(p, script=script):
                    return script.pop(0)

                have = _call(lambda: lm.sample(draw=draw, prob=True))
                evals += 1
                ok = (not isinstance(have, str)) and tuple(have[0]) == tuple(x) and close(have[1], want, False)  # sample starts from the float 1.0
                if not ok:
                    fails.append(_fail(f"{name}: sample(...) returns the drawn string with its probability", dict(inp0, backend=name, x=list(x)), have, (x, want)))
    return evals, viable_nonempty


def run_lm(case):
    p = cfgp()
    rules = case_rules(case)
    V = case_terms(case)
    n = len(rules)
    fails = []
    evals = 0
    nontriv = 0
    skipped = 0
    ctxlen = p["ctxlen"] if len(V) <= 2 else 2
    r = _weights(rules, V, case["norm"], [FLOATW[i % 6] for i in range(n)])
    if r is None:
        skipped += 1
    else:
        g, wrules, _ = r
        e, v = _check_lms(g, wrules, V, False, ctxlen, {"rules": case["rules"], "weights": "float", "normalised": case["norm"]}, fails)
        evals += e
        nontriv |= int(v > 0)
    if finite_derivations(rules, V, everywhere=True) is not None and n:
        r = _weights(rules, V, case["norm"], [FRACW[i % 6] for i in range(n)])
        if r is not None:
            g, wrules, _ = r
            e, v = _check_lms(g, wrules, V, True, ctxlen, {"rules": case["rules"], "weights": "fraction", "normalised": case["norm"]}, fails)
            evals += e
            nontriv |= int(v > 0)
    return {"evals": evals, "nontrivial": nontriv, "fails": fails, "counters": {"executions": evals, "skipped_zero_or_infinite_total": skipped}}


def run_sched(case):
    p = cfgp()
    rules = case_rules(case)
    V = case_terms(case)
    n = len(rules)
    r = _weights(rules, V, True, [FLOATW[i % 6] for i in range(n)])
    if r is None:
        return {"evals": 0, "nontrivial": 0, "fails": [], "counters": {"skipped_zero_or_infinite_total": 1}}
    g, wrules, _ = r
    try:
        ref = Ref(wrules, V, False)
        ref.pw(())
    except (NoConvergence, OverflowError):
        return {"evals": 0, "nontrivial": 0, "fails": [], "counters": {"skipped_zero_or_infinite_total": 1}}
    inp0 = {"rules": case["rules"], "weights": "float", "normalised": True}
    fails = []
    execs = 0
    evals = 0
    ties = 0
    es.install_heap()
    try:
        for ctx in strings_upto(sorted(V), 2):
            try:
                want = ref.p_next(ctx)
            except NoConvergence:
                continue
            for name, cls in BACKENDS[:2]:

                def run():
                    have = _call(lambda: cls(g).p_next(ctx))
                    if isinstance(have, str):
                        return have
                    if want is None:
                        return "ok" if all(have[t] == 0 for t in ref.V2) else repr(dict(have))
                    return "ok" if all(close(have[t], want[t]) for t in ref.V2) else repr(dict(have))

                res = es.explore(run, p["sched_bound"], max_exec=2000)
                execs += res["executions"]
                ties += int(res["max_branch"] > 1)
                evals += 1
                bad = [(o, pf) for o, pf in res["outcomes"].items() if o != "ok"]
                if bad:
                    o, pf = bad[0]
                    fails.append(_fail(f"{name}: p_next independent of agenda tie-breaks", dict(inp0, backend=name, context=list(ctx), schedule=pf[0]), o, want))
    finally:
        es.uninstall_heap()
    return {"evals": evals, "nontrivial": 1, "fails": fails, "counters": {"executions": execs, "sched_executions": execs, "sched_runs_with_ties": ties}}


def _closed_form(family, ctx):
    """p_next for the parametric families (contexts fed are a^n or a^n b^m)."""
    na = sum(1 for t in ctx if t == "a")
    nb = len(ctx) - na
    if family == "right-rec":
        return {"a": 1.0} if na == 0 else {"a": 0.5, EOS: 0.5}
    if family == "left-rec":
        # S -> S a (0.7) | a (0.3): strings a^n with prob 0.3*0.7^(n-1)
        return {"a": 1.0} if na == 0 else {"a": 0.7, EOS: 0.3}
    if family == "anbn":
        if nb == 0:
            return {"a": 0.4, EOS: 0.6} if na == 0 else {"a": 0.4, "b": 0.6}
        return {"b": 1.0} if nb < na else {EOS: 1.0}
    if family == "unary+rec":
        if nb == 0:
            return {"a": 0.9, "b": 0.1}
        return {EOS: 1.0}
    if family in ("tiny", "very-tiny"):
        # right-linear: pw(x.t)/pw(x) = w_t for t in {a,b}, and w(x)/pw(x) = 1 - w_a - w_b for EOS
        wa, wb = (1e-3, 2e-3) if family == "tiny" else (1e-30, 3e-30)
        return {"a": wa, "b": wb, EOS: 1.0 - wa - wb}
    raise KeyError(family)


def run_long(case):
    p = cfgp()
    fam = case["family"]
    wr = dict(LONG)[fam]
    V = {"a", "b"}
    g = gram.build([(h, b) for _, h, b in wr], Float, [w for w, _, _ in wr], V=V)
    inp0 = {"family": fam}
    fails = []
    evals = 0
    N = p["longn"]
    if fam == "anbn":
        seq = ("a",) * (N // 2) + ("b",) * (N // 2)
    elif fam == "unary+rec":
        seq = ("a",) * (N - 1) + ("b",)
    elif fam in ("tiny", "very-tiny"):
        seq = ("a", "b", "b") * (N // 3)
    else:
        seq = ("a",) * N
    lm = earley_rescaled.EarleyLM(g)
    plain = earley.EarleyLM(g)
    # model.logp(x) is the log PREFIX WEIGHT: sum of log conditionals + log of the total weight Z
    logp = 0.0 if "tiny" not in fam else -math.log(1.0 - ((1e-3 + 2e-3) if fam == "tiny" else 4e-30))
    underflow_seen = False
    for n in range(len(seq) + 1):
        ctx = seq[:n]
        want = _closed_form(fam, ctx)
        have = _call(lm.p_next, ctx)
        evals += 1
        abs_tol = 1e-9 if "tiny" not in fam else 1e-45
        bad = isinstance(have, str) or any(not gram.fclose(have[t], want.get(t, 0.0), rel=1e-6, abs_=abs_tol) for t in V | {EOS})
        if bad:
            fails.append(_fail("rescaled: p_next on a long context == closed form", dict(inp0, n=n), have if isinstance(have, str) else dict(have), want))
            break
        if n in (1, 5, 50) or n == len(seq):
            # plain Earley agrees while it does not underflow
            hp = _call(plain.p_next, ctx)
            if not isinstance(hp, str) and sum(hp.values()) == 0:
                underflow_seen = True
            elif isinstance(hp, str) or any(not gram.fclose(hp[t], want.get(t, 0.0), rel=1e-6, abs_=1e-9) for t in V | {EOS}):
                if n <= 50:
                    fails.append(_fail("earley: p_next on a context == closed form", dict(inp0, n=n), hp if isinstance(hp, str) else dict(hp), want))
        if n < len(seq):
            logp += math.log(want[seq[n]])
            if n + 1 in (1, 10, 100, len(seq)):
                hl = _call(lm.model.logp, seq[: n + 1])
                evals += 1
                if isinstance(hl, str) or not gram.fclose(hl, logp, rel=1e-6, abs_=1e-6):
                    fails.append(_fail("rescaled: logp(prefix) == closed form", dict(inp0, n=n + 1), hl, logp))
    return {"evals": evals, "nontrivial": 1, "fails": fails, "counters": {"executions": evals, "plain_underflow_observed": int(underflow_seen)}}


def run_case(case):
    return {"lm": run_lm, "sched": run_sched, "long": run_long}[case["mode"]](case)
