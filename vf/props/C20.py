"""C20 - local normalisation yields the proportional proper grammar; EOS wrapping."""
from fractions import Fraction

from vf import gram
from vf.gram import case_rules, case_terms, short
from vf.props.C08 import finite_derivations
from vf.ref_cfg import NoConvergence, enum_derivs, ref_totals, ref_weight, rules_of
from vf.runner import CaseTimeout
from vf.semirings import Poly
from vf.spaces import strings_upto

from genlm.grammar.cfglm import EOS, add_EOS, locally_normalize
from genlm.grammar.semiring import Float

ID = "C20"
LEVEL = "model_checking"
TIER = "quick"
FLOATW = [0.5, 1 / 3, 0.2, 1 / 7, 0.25, 0.3]
FRACW = [Fraction(1, 2), Fraction(1, 3), Fraction(1, 5), Fraction(1, 7), Fraction(1, 4), Fraction(3, 10)]
FRACW2 = [Fraction(3), Fraction(1, 2), Fraction(2), Fraction(5, 3), Fraction(1, 4), Fraction(7)]


def cfgp():
    if TIER == "thorough":
        return dict(D=6, depth=3, maxlen=4, extra=True)
    return dict(D=5, depth=3, maxlen=3, extra=False)


def init_worker(tier):
    global TIER
    TIER = tier
    Poly.D = cfgp()["D"]


def plan(tier, seed):
    global TIER
    TIER = tier
    p = cfgp()
    base, nstates, ntrans = gram.grammar_cases(p["depth"])
    cases = []
    for c in base:
        cases.append(dict(c, mode="norm"))
        cases.append(dict(c, mode="eos"))
    if p["extra"]:
        b3, s3, t3 = gram.grammar_cases(2, heads=("S", "A", "B"), with_sharp=False)
        b4, s4, t4 = gram.grammar_cases(2, heads=("S", "A"), maxbody=3, with_sharp=False)
        for c in b3 + b4:
            cases.append(dict(c, mode="norm"))
            cases.append(dict(c, mode="eos"))
        nstates += s3 + s4
        ntrans += t3 + t4
    return {
        "cases": cases,
        "states": nstates,
        "transitions": ntrans,
        "chunk": 20,
        "rule": (
            f"E1: BFS over cfg.add(rule) sequences to depth {p['depth']} + sharp grammars. norm: grammars whose reference total weight is finite and positive, float weights from a rational alphabet "
            f"(and exact Fractions, two weightings, on the finite-derivation sub-space): per-head rule weights sum to 1, total weight 1 (reference fixed point on the output), ln(G)(x)*Z = G(x) for every string <= {p['maxlen']}, "
            "useless zero-total nonterminals dropped. eos: free indeterminate weights, add_EOS(G) evaluated by the reference fixed point and by the library on every string over V+EOS <= bound+1: "
            "x.EOS gets weight(x), everything with zero or >=2 EOS or EOS not last gets zero. non-trivial = total weight positive (norm) / language non-empty within the bound (eos)"
        ),
        "bounds": p,
        "assumptions": ["float comparisons rel 1e-6 + abs 1e-9 (library fixed point stops at absolute 1e-12)"],
    }


def _fail(pred, inp, obs, exp):
    return {"pred": pred, "input": inp, "observed": short(obs), "expected": short(exp)}


def _call(f, *a):
    try:
        return f(*a)
    except CaseTimeout:
        raise
    except Exception as e:  # noqa: BLE001
        return f"EXC {type(e).__name__}: {e}"


def _check_norm(rules, V, W, exact, inp0, maxlen, fails, order=None, fresh=False):
    evals = 0
    S0 = "S"
    ren = None
    if fresh:
        # every occurrence of a nonterminal is an equal but NOT identical object; the reference works on the
        # value-equal plain names
        nts = {"S"} | {h for h, _ in rules} | {y for _, b in rules for y in b if y not in V}
        ren = gram.FreshNames(nts)
        nm = lambda y: "N:" + y if y in nts else y  # noqa: E731
        wrules = [(w, nm(h), tuple(nm(y) for y in b)) for w, (h, b) in zip(W, rules)]
        S0 = "N:S"
    else:
        wrules = [(w, h, b) for w, (h, b) in zip(W, rules)]
    tol = 0 if exact else 1e-16
    try:
        Z = ref_totals(wrules, V, Float, tol=tol, maxit=5000)
    except (NoConvergence, OverflowError):
        return 0, 0, 1
    ZS = Z.get(S0, 0)
    if not (ZS > 0) or any(v > 1e6 for v in Z.values()):
        return 0, 0, 1

    def close(a, b):
        return a == b if exact else gram.fclose(a, b)

    g = gram.build(rules, Float, W, V=V, order=order, rename=ren)
    new = _call(locally_normalize, g)
    evals += 1
    if isinstance(new, str):
        fails.append(_fail("locally_normalize: construct", inp0, new, "grammar"))
        return evals, 1, 0
    nrules = rules_of(new)
    heads = {}
    for w, h, b in nrules:
        heads[h] = heads.get(h, 0) + w
    for h, s in heads.items():
        evals += 1
        if not close(s, 1):
            fails.append(_fail("locally_normalize: rule weights of a head sum to one", dict(inp0, head=h), s, 1))
    # rules of zero-total heads are dropped, all others kept with proportional weight
    for h in heads:
        if not (Z.get(h, 0) > 0):
            fails.append(_fail("locally_normalize: zero-total nonterminal dropped", dict(inp0, head=h), "kept", "dropped"))
    try:
        Zn = ref_totals(nrules, new.V, Float, tol=tol, maxit=5000).get(new.S, 0)
    except (NoConvergence, OverflowError):
        Zn = "reference total of the normalised grammar does not converge"
    evals += 1
    if isinstance(Zn, str) or not close(Zn, 1):
        fails.append(_fail("locally_normalize: total weight is one", inp0, Zn, 1))
    for x in strings_upto(sorted(V), maxlen):
        try:
            want = ref_weight(wrules, S0, V, Float, x, tol=tol, maxit=400) / ZS
            have = ref_weight(nrules, new.S, new.V, Float, x, tol=tol, maxit=400)
        except NoConvergence:
            continue
        evals += 1
        if not close(have, want):
            fails.append(_fail("locally_normalize: ln(G)(x) == G(x)/Z", dict(inp0, x=list(x)), have, want))
            break
        if fresh:
            # the normalised grammar is what a user evaluates: the library's own evaluation of it
            lib = _call(new, x)
            evals += 1
            if isinstance(lib, str) or not close(lib, want):
                fails.append(_fail("locally_normalize: ln(G)(x) == G(x)/Z (evaluated by the library)", dict(inp0, x=list(x)), lib, want))
                break
    return evals, 1, 0


def run_norm(case):
    p = cfgp()
    rules = case_rules(case)
    V = case_terms(case)
    fails = []
    evals = 0
    nontriv = 0
    skipped = 0
    n = len(rules)
    maxlen = p["maxlen"] if len(V) <= 2 else 2
    e, nt, sk = _check_norm(rules, V, [FLOATW[i % 6] for i in range(n)], False, {"rules": case["rules"], "weights": "float"}, maxlen, fails)
    evals += e
    nontriv |= nt
    skipped += sk
    if n >= 2:
        # configurations: the same grammar with its rules added in reverse order and rotated by one
        for oname, order in (("reversed", list(range(n))[::-1]), ("rotated", list(range(1, n)) + [0])):
            e, nt, sk = _check_norm(rules, V, [FLOATW[i % 6] for i in range(n)], False, {"rules": case["rules"], "weights": "float", "rule_order": oname}, maxlen, fails, order=order)
            evals += e
    if n <= 2 or case["name"].startswith("sharp"):
        e, nt, sk = _check_norm(rules, V, [FLOATW[i % 6] for i in range(n)], False, {"rules": case["rules"], "weights": "float", "names": "a new equal-but-not-identical object per occurrence"}, maxlen, fails, fresh=True)
        evals += e
    var_of = gram.shared_vars(rules)
    if var_of is not None:
        # duplicate rules with EQUAL weights (rule objects equal by value)
        e, nt, sk = _check_norm(rules, V, [FLOATW[v % 6] for v in var_of], False, {"rules": case["rules"], "weights": "float, duplicates share their weight"}, maxlen, fails)
        evals += e
    if finite_derivations(rules, V, everywhere=True) is not None:
        for wn, WW in (("frac", FRACW), ("frac2", FRACW2)):
            e, nt, sk = _check_norm(rules, V, [WW[i % 6] for i in range(n)], True, {"rules": case["rules"], "weights": wn}, maxlen, fails)
            evals += e
            nontriv |= nt
    return {"evals": evals, "nontrivial": nontriv, "fails": fails, "counters": {"executions": evals, "skipped_zero_or_infinite_total": skipped}}


def run_eos(case):
    r = _run_eos(case, None, False)
    # naming / nesting configurations: a grammar that already uses the name of the fresh
    # start symbol, and EOS wrapping applied twice with different end symbols
    for ren, nested in (({"S": "<START>", "A": "<START>@1"}, False), ({"S": "A", "A": "<START>"}, False), (None, True)):
        r2 = _run_eos(case, ren, nested)
        r["evals"] += r2["evals"]
        r["fails"] += r2["fails"]
        r["counters"]["executions"] += r2["counters"]["executions"]
    return r


def _run_eos(case, ren, nested):
    p = cfgp()
    rules = case_rules(case)
    V = case_terms(case)
    table = enum_derivs(rules, "S", V, Poly.D - 1)  # the wrapper rule S' -> S EOS has weight one (degree 0)
    inp0 = {"rules": case["rules"]}
    if ren:
        inp0["rename"] = short(ren)
    if nested:
        inp0["nested"] = "add_EOS(add_EOS(g, '#'), '$')"
    fails = []
    evals = 0
    g = gram.build(rules, Poly, gram.poly_weights(len(rules)), V=V, rename=ren)
    before = (list(g.rules), set(g.V), g.S)
    if nested:
        new = _call(lambda: add_EOS(add_EOS(g, "#"), "$"))
        ends = ("#", "$")
    else:
        new = _call(add_EOS, g)
        ends = (EOS,)
    if isinstance(new, str):
        return {"evals": 1, "nontrivial": 0, "fails": [_fail("add_EOS: construct", inp0, new, "grammar")], "counters": {"executions": 1}}
    if (list(g.rules), set(g.V), g.S) != before:
        fails.append(_fail("add_EOS leaves its argument unchanged", inp0, (g.rules, g.V), before))
    if set(new.V) != set(V) | set(ends):
        fails.append(_fail("add_EOS: vocabulary is V + EOS", inp0, new.V, set(V) | set(ends)))
    nrules = rules_of(new)
    maxlen = (p["maxlen"] if len(V) <= 2 else 2) + (1 if nested and TIER == "thorough" else 0)
    if nested and len(V) + 2 > 4:
        maxlen = 3
    D = Poly.D
    k = len(ends)
    for y in strings_upto(sorted(V) + list(ends), maxlen):
        if len(y) >= k and tuple(y[-k:]) == tuple(ends) and not any(e in y[:-k] for e in ends):
            want = table.get(y[:-k], Poly.zero)
        else:
            want = Poly.zero
        # compare modulo degree D-1 (input derivations of <= D-1 rule uses)
        have = _call(ref_weight, nrules, new.S, new.V, Poly, y)
        evals += 1
        if isinstance(have, Poly):
            have = have.degree_part(lambda m: len(m) <= D - 1)
        if not (isinstance(have, Poly) and have == want):
            fails.append(_fail("add_EOS(G)(y) == G(x) iff y == x.EOS else zero (reference evaluation)", dict(inp0, y=list(y)), have, want))
        if not nested and not ren:
            have = _call(new, y)
            evals += 1
            if isinstance(have, Poly):
                have = have.degree_part(lambda m: len(m) <= D - 1)
            if not (isinstance(have, Poly) and have == want):
                fails.append(_fail("add_EOS(G)(y) == G(x) iff y == x.EOS else zero", dict(inp0, y=list(y)), have, want))
    nontriv = any(w != Poly.zero and len(x) < maxlen for x, w in table.items())
    return {"evals": evals, "nontrivial": int(nontriv), "fails": fails, "counters": {"executions": evals}}


def run_case(case):
    return {"norm": run_norm, "eos": run_eos}[case["mode"]](case)
