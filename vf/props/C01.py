"""C01 - next-token mask = exactly the viable continuations (both back-ends)."""
import zlib

from vf import gram
from vf.gram import case_rules, case_terms, short
from vf.ref_cfg import member, viable_prefix
from vf.runner import CaseTimeout
from vf.spaces import strings_upto

from genlm.grammar.cfglm import EOS, BoolCFGLM
from genlm.grammar.cfg import CFG
from genlm.grammar.semiring import Boolean, Float

ID = "C01"
LEVEL = "model_checking"
CASE_HARD_TIMEOUT = 900  # the scale case (34k rules) takes ~10 s with Earley and ~1 min through CNF and CKY
TIER = "quick"
ALGS = ("earley", "cky")


def cfgp():
    if TIER == "thorough":
        return dict(depth=3, ctxlen=4, perm_depth=3, extra=True)
    return dict(depth=3, ctxlen=3, perm_depth=2, extra=False)


def init_worker(tier):
    global TIER
    TIER = tier


def plan(tier, seed):
    global TIER
    TIER = tier
    p = cfgp()
    base, nstates, ntrans = gram.grammar_cases(p["depth"])
    cases = [dict(c, mode="mask") for c in base]
    if p["extra"]:
        b3, s3, t3 = gram.grammar_cases(2, heads=("S", "A", "B"), with_sharp=False)
        b4, s4, t4 = gram.grammar_cases(2, heads=("S", "A"), maxbody=3, with_sharp=False)
        cases += [dict(c, mode="mask") for c in b3 + b4]
        nstates += s3 + s4
        ntrans += t3 + t4
    for c in base:
        if 1 <= len(c["rules"]) <= p["perm_depth"] or (c["name"].startswith("sharp") and 1 <= len(c["rules"]) <= 4):
            cases.append(dict(c, mode="perm"))
    # integer vocabularies {0,1,2} (token ids / bytes): internal renumbering of nonterminals must stay apart from them
    bi, si, ti = gram.grammar_cases(2 if tier != "thorough" else 3, terms=("a", "b", "c"), with_sharp=False)
    cases += [dict(c, mode="mask", ints=True) for c in bi]
    nstates += si
    ntrans += ti
    # one SCALE input: K tokens and all K*K two-token strings (internal tables of > 2^16 entries; real vocabularies are far larger)
    cases.insert(0, {"name": "scale", "mode": "scale", "K": 185, "rules": [], "algs": ["earley"] if tier != "thorough" else ["earley", "cky"]})
    nstates += 1
    ntrans += 185 * 185
    return {
        "cases": cases,
        "states": nstates,
        "transitions": ntrans,
        "chunk": 20,
        "rule": (
            f"E1: BFS over cfg.add(rule) sequences to depth {p['depth']} (42-rule alphabet, multisets, canonical up to a<->b) + sharp grammars; "
            f"in every state every context over V+{{EOS}} of length <= {p['ctxlen']} (viable, non-viable, containing EOS) x back-ends earley, cky "
            "(Boolean weights; a Float-weighted copy exercises the map_values path; for grammars of <= 2 rules and the sharp ones every single rule in turn gets weight -1 / 0, which the documented conversion maps to False = rule absent): the key set of p_next(ctx) must equal "
            "{t : ctx.t is a prefix of a string of L(G).EOS} decided by the independent set-based viability oracle R3; lm(x.EOS) must equal membership. "
            "scale = one grammar with 185 tokens and all 185^2 two-token strings (tables > 2^16 entries), 7 contexts; perm = every rule order x 6 renamings (one of them gives every OCCURRENCE of a nonterminal a new equal-but-not-identical object). non-trivial = the oracle offers at least one token for at least one context"
        ),
        "bounds": p,
        "assumptions": ["one PYTHONHASHSEED per run; rule order and names are enumerated for the small states"],
    }


def _fail(pred, inp, obs, exp):
    return {"pred": pred, "input": inp, "observed": short(obs), "expected": short(exp)}


def _oracle(rules, V):
    """rules of the EOS-wrapped grammar; returns f(ctx) -> set of offered tokens."""
    S2 = "<S'>"
    r2 = list(rules) + [(S2, ("S", EOS))]
    V2 = set(V) | {EOS}
    cache = {}

    def viable(ctx):
        if ctx not in cache:
            cache[ctx] = viable_prefix(r2, S2, V2, ctx)
        return cache[ctx]

    def offered(ctx):
        if not viable(ctx):
            return set()
        return {t for t in V2 if viable(ctx + (t,))}

    return offered, V2


def _check_lm(lm, offered, V2, ctxlen, inp0, alg, fails, pred_suffix=""):
    evals = 0
    nonempty = 0
    for ctx in strings_upto(sorted(V2, key=repr), ctxlen):
        want = offered(ctx)
        if want:
            nonempty += 1
        try:
            p = lm.p_next(ctx)
            have = set(p.keys())
            vals_ok = all(v == 1 for v in p.values())
        except CaseTimeout:
            raise
        except Exception as e:  # noqa: BLE001
            have = f"EXC {type(e).__name__}: {e}"
            vals_ok = True
        evals += 1
        if have != want or not vals_ok:
            fails.append(_fail(f"{alg}: mask == viable continuations{pred_suffix}", dict(inp0, alg=alg, context=list(ctx)), have if isinstance(have, str) else sorted(have, key=repr), sorted(want, key=repr)))
    return evals, nonempty


def run_mask(case):
    p = cfgp()
    rules = case_rules(case)
    V = case_terms(case)
    offered, V2 = _oracle(rules, V)
    fails = []
    evals = 0
    nonempty = 0
    inp0 = {"rules": case["rules"]} if not case.get("ints") else {"rules": case["rules"], "tokens": "a,b,c -> 0,1,2"}
    n = len(rules)
    gb = gram.build(rules, Boolean, [Boolean.one] * n, V=V)
    gf = gram.build(rules, Float, [0.5] * n, V=V)
    for alg in ALGS:
        for wname, g in (("bool", gb), ("float", gf)):
            if wname == "float" and (zlib.crc32(repr(case["rules"]).encode()) % 4 != 0 and not case["name"].startswith("sharp")) and TIER != "thorough":
                continue
            try:
                lm = BoolCFGLM(g, alg=alg)
            except CaseTimeout:
                raise
            except Exception as e:  # noqa: BLE001
                fails.append(_fail(f"{alg}: construct", dict(inp0, alg=alg, weights=wname), f"EXC {type(e).__name__}: {e}", "language model"))
                continue
            ctxlen = p["ctxlen"] if len(V) <= 2 else min(p["ctxlen"], 3)
            e, ne = _check_lm(lm, offered, V2, ctxlen, dict(inp0, weights=wname), alg, fails)
            evals += e
            nonempty += ne
            # whole-string acceptance through the chain rule
            for x in strings_upto(sorted(V, key=repr), 2):
                want = float(member(rules, "S", V, x))
                try:
                    have = lm(x + (EOS,))
                except CaseTimeout:
                    raise
                except Exception as ex:  # noqa: BLE001
                    have = f"EXC {type(ex).__name__}: {ex}"
                evals += 1
                if have != want:
                    fails.append(_fail(f"{alg}: lm(x.EOS) == membership", dict(inp0, alg=alg, weights=wname, x=list(x)), have, want))
    # the documented weight conversion: "positive weights become True and zero/negative weights become
    # False" - a real-weighted grammar whose k-th rule has a negative (or zero) weight behaves like the
    # grammar without that rule
    signed = 0
    if 1 <= n <= 2 or (case["name"].startswith("sharp") and 1 <= n <= 4):
        for k in range(n):
            for wk in (-1.0, 0.0):
                W = [0.5] * n
                W[k] = wk
                rest = [r for i, r in enumerate(rules) if i != k]
                off2, _ = _oracle(rest, V)
                for alg in ALGS:
                    try:
                        lm = BoolCFGLM(gram.build(rules, Float, W, V=V), alg=alg)
                    except CaseTimeout:
                        raise
                    except Exception as e:  # noqa: BLE001
                        fails.append(_fail(f"{alg}: construct", dict(inp0, alg=alg, weights=W), f"EXC {type(e).__name__}: {e}", "language model"))
                        continue
                    e, ne = _check_lm(lm, off2, V2, min(p["ctxlen"], 2), dict(inp0, weights=W), alg, fails, " (rule with non-positive weight is absent)")
                    evals += e
                    signed += 1
    return {"evals": evals, "nontrivial": int(nonempty > 0), "fails": fails, "counters": {"executions": evals, "contexts_with_nonempty_mask": nonempty, "nonpositive_weight_configs": signed}}


def run_perm(case):
    p = cfgp()
    rules = case_rules(case)
    V = case_terms(case)
    offered, V2 = _oracle(rules, V)
    fails = []
    evals = 0
    nonempty = 0
    inp0 = {"rules": case["rules"]}
    maxperm = 24 if len(rules) <= 4 else 6
    for order, ren in gram.permutations_and_renamings(rules, max_perms=maxperm):
        g = gram.build(rules, Boolean, [Boolean.one] * len(rules), V=V, order=order, rename=ren)
        for alg in ALGS:
            try:
                lm = BoolCFGLM(g, alg=alg)
            except CaseTimeout:
                raise
            except Exception as e:  # noqa: BLE001
                fails.append(_fail(f"{alg}: construct", dict(inp0, alg=alg, order=order, rename=short(ren)), f"EXC {type(e).__name__}: {e}", "language model"))
                continue
            e, ne = _check_lm(lm, offered, V2, min(p["ctxlen"], 3) if len(rules) <= 2 else 2, dict(inp0, order=order, rename=short(ren)), alg, fails, " (any rule order / names)")
            evals += e
            nonempty += ne
    return {"evals": evals, "nontrivial": int(nonempty > 0), "fails": fails, "counters": {"executions": evals, "configurations": evals}}


def run_scale(case):
    """A grammar far beyond the BFS bound in SIZE only: vocabulary t0..t{K-1}, language = all two-token strings."""
    K = case["K"]
    toks = [f"t{i}" for i in range(K)]
    V = set(toks)
    g = CFG(Boolean, "S", set(V))
    for x in toks:
        for y in toks:
            g.add(Boolean.one, "S", x, y)
    fails = []
    evals = 0
    for alg in case["algs"]:
        inp0 = {"grammar": f"S -> ti tj for all i, j < {K}", "alg": alg}
        try:
            lm = BoolCFGLM(g, alg=alg)
        except CaseTimeout:
            raise
        except Exception as e:  # noqa: BLE001
            fails.append(_fail(f"{alg}: construct", inp0, f"EXC {type(e).__name__}: {e}", "language model"))
            continue
        for ctx, want in (((), V), ((toks[0],), V), ((toks[K - 1],), V), ((toks[0], toks[1]), {EOS}), ((toks[K - 1], toks[K - 1]), {EOS}), ((toks[0], toks[1], toks[2]), set()), ((toks[0], toks[1], EOS), set())):
            try:
                have = set(lm.p_next(ctx).keys())
            except CaseTimeout:
                raise
            except Exception as e:  # noqa: BLE001
                have = f"EXC {type(e).__name__}: {e}"
            evals += 1
            if have != want:
                fails.append(_fail(f"{alg}: mask == viable continuations (large vocabulary)", dict(inp0, context=list(ctx)), have if isinstance(have, str) else f"{len(have)} tokens: {sorted(have)[:5]}", f"{len(want)} tokens: {sorted(want)[:5]}"))
    return {"evals": evals, "nontrivial": 1, "fails": fails, "counters": {"executions": evals, "scale_rules": K * K}}


def run_case(case):
    return {"mask": run_mask, "perm": run_perm, "scale": run_scale}[case["mode"]](case)
