"""C07 - normal forms satisfy their structural postconditions (evaluated on the OUTPUT)."""
from vf import gram
from vf.gram import case_rules, case_terms, short
from vf.ref_cfg import productive, reachable
from vf.runner import CaseTimeout
from vf.semirings import Poly

from genlm.grammar.semiring import Boolean

ID = "C07"
LEVEL = "model_checking"
TIER = "quick"


def cfgp():
    if TIER == "thorough":
        return dict(depth=4, extra=True)
    return dict(depth=3, extra=False)


def init_worker(tier):
    global TIER
    TIER = tier
    Poly.D = 4


def plan(tier, seed):
    global TIER
    TIER = tier
    p = cfgp()
    base, nstates, ntrans = gram.grammar_cases(p["depth"])
    cases = list(base)
    bi, si, ti = gram.grammar_cases(2 if tier != "thorough" else 3, terms=("a", "b", "c"), with_sharp=False)
    cases += [dict(c, ints=True) for c in bi]  # integer terminals {0,1,2} (0 is falsy)
    nstates += si
    ntrans += ti
    if p["extra"]:
        b3, s3, t3 = gram.grammar_cases(3, heads=("S", "A", "B"), with_sharp=False)
        b4, s4, t4 = gram.grammar_cases(2, heads=("S", "A"), maxbody=3, with_sharp=False)
        cases += b3 + b4
        nstates += s3 + s4
        ntrans += t3 + t4
    return {
        "cases": cases,
        "states": nstates,
        "transitions": ntrans,
        "chunk": 50,
        "rule": (
            f"E1: BFS over cfg.add(rule) sequences to depth {p['depth']} + sharp grammars (Boolean weights, free Poly weights for the weight-dependent paths, and - for grammars with repeated rules - real weights whose parallel copies cancel exactly); in every state each normal-form "
            "transformation with every option is applied and its postcondition is decided on the output by own code: CNF shape with start off every rhs; no empty rule except at the start; "
            "no unary rule / no unary cycle (own DFS); arity <= 2; start off every rhs; terminals only in A->a; trim/cotrim: every symbol of every kept rule reachable from the start and generating "
            "IN THE OUTPUT (own least fixed points), empty language => no rules. non-trivial = the input has a useless symbol, an empty rule, a unary rule or a body longer than one"
        ),
        "bounds": p,
        "assumptions": [],
    }


def _fail(pred, inp, obs, exp):
    return {"pred": pred, "input": inp, "observed": short(obs), "expected": short(exp)}


def rl(g):
    return [(r.head, tuple(r.body)) for r in g.rules]


def post_cnf(g):
    bad = []
    for h, b in rl(g):
        if len(b) == 0 and h == g.S:
            continue
        if len(b) == 1 and b[0] in g.V:
            continue
        if len(b) == 2 and all((y not in g.V) and y != g.S for y in b):
            continue
        bad.append((h, b))
    return bad


def post_nullary(g):
    return [(h, b) for h, b in rl(g) if len(b) == 0 and h != g.S]


def post_unary(g):
    return [(h, b) for h, b in rl(g) if len(b) == 1 and b[0] not in g.V]


def post_unary_cycle(g):
    edges = {}
    for h, b in rl(g):
        if len(b) == 1 and b[0] not in g.V:
            edges.setdefault(h, set()).add(b[0])
    bad = []
    for s in edges:
        seen = set()
        stack = list(edges[s])
        while stack:
            x = stack.pop()
            if x == s:
                bad.append(s)
                break
            if x in seen:
                continue
            seen.add(x)
            stack.extend(edges.get(x, ()))
    return bad


def post_arity(g):
    return [(h, b) for h, b in rl(g) if len(b) > 2]


def post_start_off_rhs(g):
    return [(h, b) for h, b in rl(g) if g.S in b]


def post_terminals_separated(g):
    return [(h, b) for h, b in rl(g) if len(b) != 1 and any(y in g.V for y in b)]


def post_trim(g):
    rules = rl(g)
    P = productive(rules, g.V)
    T = reachable(rules, g.S)
    bad = [(h, b) for h, b in rules if any((s not in P) or (s not in T) for s in (h,) + b)]
    return bad


def post_cotrim(g):
    rules = rl(g)
    P = productive(rules, g.V)
    return [(h, b) for h, b in rules if any(s not in P for s in (h,) + b)]


def checks(mk):
    """(transformation name, thunk on a fresh grammar, [(postcondition name, fn)])"""
    return [
        ("cnf", lambda g: g.cnf, [("cnf: only S->eps, A->a, A->B C with start off rhs", post_cnf)]),
        ("nullaryremove(binarize=True,trim=True)", lambda g: g.nullaryremove(), [("nullaryremove: no empty rule except at start", post_nullary)]),
        ("nullaryremove(binarize=False,trim=True)", lambda g: g.nullaryremove(binarize=False), [("nullaryremove: no empty rule except at start", post_nullary)]),
        ("nullaryremove(binarize=True,trim=False)", lambda g: g.nullaryremove(trim=False), [("nullaryremove: no empty rule except at start", post_nullary)]),
        ("nullaryremove(binarize=False,trim=False)", lambda g: g.nullaryremove(binarize=False, trim=False), [("nullaryremove: no empty rule except at start", post_nullary)]),
        ("unaryremove", lambda g: g.unaryremove(), [("unaryremove: no unary rule", post_unary)]),
        ("unarycycleremove(trim=True)", lambda g: g.unarycycleremove(), [("unarycycleremove: no unary cycle", post_unary_cycle)]),
        ("unarycycleremove(trim=False)", lambda g: g.unarycycleremove(trim=False), [("unarycycleremove: no unary cycle", post_unary_cycle)]),
        ("binarize", lambda g: g.binarize(), [("binarize: arity <= 2", post_arity)]),
        ("separate_start", lambda g: g.separate_start(), [("separate_start: start off every rhs", post_start_off_rhs)]),
        ("separate_terminals", lambda g: g.separate_terminals(), [("separate_terminals: terminals only in A->a", post_terminals_separated)]),
        ("trim", lambda g: g.trim(), [("trim: only reachable and generating symbols", post_trim)]),
        ("cotrim", lambda g: g.cotrim(), [("cotrim: only generating symbols", post_cotrim)]),
        ("trim.trim", lambda g: g.trim().trim(), [("trim: only reachable and generating symbols", post_trim)]),
        ("cotrim.trim", lambda g: g.cotrim().trim(), [("trim: only reachable and generating symbols", post_trim)]),
        ("trim(cached twice)", lambda g: (g.trim(), g.trim())[1], [("trim: only reachable and generating symbols", post_trim)]),
    ]


def run_case(case):
    rules = case_rules(case)
    V = case_terms(case)
    inp0 = {"rules": case["rules"]} if not case.get("ints") else {"rules": case["rules"], "tokens": "a,b,c -> 0,1,2"}
    fails = []
    evals = 0
    nx = 0
    nr = len(rules)
    orders = [("bool", Boolean, [Boolean.one] * nr, None), ("free", Poly, gram.poly_weights(nr), None)]
    if nr >= 2:
        orders.append(("bool,reversed-rule-order", Boolean, [Boolean.one] * nr, list(range(nr))[::-1]))
    # real weights of both signs: the k-th copy of a rule that occurs several times gets the sign (-1)^k,
    # so parallel rules cancel exactly (the summed edge of the unary graph / the summed null weight is 0.0)
    seen_rule = {}
    SW = []
    for hb in rules:
        k = seen_rule.get(hb, 0)
        seen_rule[hb] = k + 1
        SW.append(0.25 * (-1) ** k)
    if any(v > 1 for v in seen_rule.values()):
        from genlm.grammar.semiring import Float

        orders.append(("signed floats (duplicates cancel)", Float, SW, None))
    for wname, R, W, order in orders:
        for name, fn, posts in checks(None):
            g = gram.build(rules, R, W, V=V, order=order)
            try:
                out = fn(g)
            except CaseTimeout:
                raise
            except (ZeroDivisionError, OverflowError) as e:
                if wname.startswith("signed"):
                    continue  # a numerically divergent closure is not a structural matter
                fails.append(_fail(posts[0][0], dict(inp0, transformation=name, weights=wname), f"EXC {type(e).__name__}: {e}", "grammar"))
                continue
            except Exception as e:  # noqa: BLE001
                fails.append(_fail(posts[0][0], dict(inp0, transformation=name, weights=wname), f"EXC {type(e).__name__}: {e}", "grammar"))
                continue
            nx += 1
            for pname, post in posts:
                bad = post(out)
                evals += 1
                if bad:
                    fails.append(_fail(pname, dict(inp0, transformation=name, weights=wname), {"offending": bad[:4], "output_rules": rl(out)[:8], "start": out.S}, "no offending rule"))
    P = productive(rules, V)
    T = reachable(rules, "S")
    nontriv = any(len(b) != 1 for _, b in rules) or any(len(b) == 1 and b[0] not in V for _, b in rules) or any(s not in P or s not in T for h, b in rules for s in (h,) + b)
    return {"evals": evals, "nontrivial": int(nontriv), "fails": fails, "counters": {"executions": nx}}
