"""C06 - normal-form transformations preserve the weighted language."""
from vf import gram, xforms
from vf.gram import case_rules, case_terms, short
from vf.ref_cfg import NoConvergence, enum_derivs, ref_weight, rules_of
from vf.runner import CaseTimeout
from vf.semirings import Poly
from vf.spaces import strings_upto

ID = "C06"
LEVEL = "model_checking"
TIER = "quick"


def cfgp():
    if TIER == "thorough":
        return dict(D=6, depth=3, maxlen=3, chain_depth=3, extra=True)
    return dict(D=5, depth=3, maxlen=3, chain_depth=2, extra=False)


def init_worker(tier):
    global TIER
    TIER = tier
    Poly.D = cfgp()["D"]


def plan(tier, seed):
    global TIER
    TIER = tier
    p = cfgp()
    base, nstates, ntrans = gram.grammar_cases(p["depth"])
    cases = [dict(c, mode="single") for c in base]
    if p["extra"]:
        b3, s3, t3 = gram.grammar_cases(2, heads=("S", "A", "B"), with_sharp=False)
        b4, s4, t4 = gram.grammar_cases(2, heads=("S", "A"), maxbody=3, with_sharp=False)
        cases += [dict(c, mode="single") for c in b3 + b4]
        nstates += s3 + s4
        ntrans += t3 + t4
    for c in base:
        if len(c["rules"]) <= 3 or c["name"].startswith("sharp"):
            cases.append(dict(c, mode="signed"))
    for c in base:
        if 1 <= len(c["rules"]) <= 2 or c["name"].startswith("sharp"):
            cases.append(dict(c, mode="nc"))
    nchain = 0
    for c in base:
        if len(c["rules"]) <= p["chain_depth"] or c["name"].startswith("sharp"):
            cases.append(dict(c, mode="chain"))
            nchain += 1
    ntrans += nchain * len(xforms.CHAIN) ** 2
    return {
        "cases": cases,
        "states": nstates,
        "transitions": ntrans,
        "chunk": 8,
        "rule": (
            f"E1: BFS over cfg.add(rule) sequences to depth {p['depth']} + sharp grammars, free indeterminate weights (Poly_D, D={p['D']}); in every state every transformation and option "
            "(trim, cotrim, binarize, separate_start, separate_terminals, nullaryremove x4 flag combinations, unaryremove, unarycycleremove x2, cnf, renumber, rename by every injective map into a 3-name pool, "
            f"unfold(i,k) for every rule and nonterminal position) is applied and the OUTPUT grammar is evaluated on every string <= {p['maxlen']} by the naive fixed point R2 (not by the library's parsers) "
            f"and compared with the derivation enumerator's table of the input; chain mode: every ordered pair of {len(xforms.CHAIN)} transformations (non-initial states). "
            "nc mode: weights are free NON-commuting indeterminates (NCPoly), derivation weight = product in leftmost-derivation order; applied to the transformations that keep every factor in place "
            f"({', '.join(NC_XFORMS)}; nullary removal, cnf and unfold commute factors by construction and are not in this pass). "
            "non-trivial = the input grammar has a string of non-zero weight within the bound"
        ),
        "bounds": p,
        "assumptions": ["agreement is modulo derivations of more than D rule uses (truncation homomorphism)"],
    }


def _fail(pred, inp, obs, exp):
    return {"pred": pred, "input": inp, "observed": short(obs), "expected": short(exp)}


def _compare(out, table, V, maxlen, pred, inp, fails):
    """Evaluate the output grammar with R2 on every string and compare with the input's table."""
    evals = 0
    if set(out.V) != set(V):
        fails.append(_fail(pred + " [vocabulary changed]", inp, sorted(map(repr, out.V)), sorted(V)))
    orules = rules_of(out)
    for x in strings_upto(sorted(V), maxlen):
        want = table.get(x, Poly.zero)
        try:
            have = ref_weight(orules, out.S, out.V, Poly, x, maxit=60)
        except NoConvergence:
            have = "reference evaluation of the output grammar does not stabilise (weight-one cycle?)"
        evals += 1
        if not (isinstance(have, Poly) and have == want):
            fails.append(_fail(pred, dict(inp, x=list(x)), have, want))
            break  # one witness string per (grammar, transformation)
    return evals


def run_single(case):
    r = _run_single(case, None)
    if 2 <= len(case["rules"]) <= 2 or (case["name"].startswith("sharp") and len(case["rules"]) >= 2):
        r2 = _run_single(case, None, order=list(range(len(case["rules"])))[::-1])  # rules added in reverse order
        r["evals"] += r2["evals"]
        r["fails"] += r2["fails"]
        r["counters"]["executions"] += r2["counters"]["executions"]
    if len(case["rules"]) <= 2 or case["name"].startswith("sharp"):
        r2 = _run_single(case, None, fresh=True)
        r["evals"] += r2["evals"]
        r["fails"] += r2["fails"]
        r["counters"]["executions"] += r2["counters"]["executions"]
        r["counters"]["fresh_object_names"] = 1
    var_of = gram.shared_vars(case_rules(case))
    if var_of is not None:
        # duplicate rules that are equal BY VALUE (same weight), as with numeric weights
        r2 = _run_single(case, var_of)
        r["evals"] += r2["evals"]
        r["fails"] += r2["fails"]
        r["counters"]["executions"] += r2["counters"]["executions"]
        r["counters"]["shared_weight_duplicates"] = 1
    return r


def run_signed(case):
    """Real weights of both signs with exact cancellation (dyadic floats are exact): every
    transformation must still preserve every string weight (sums passing through 0.0)."""
    import itertools as _it
    from vf.props.C08 import finite_derivations
    from genlm.grammar.semiring import Float

    rules = case_rules(case)
    V = case_terms(case)
    n = len(rules)
    from vf.props.C08 import no_recursion

    if not n or not no_recursion(rules, V):  # a useless weight-one cycle would make the library's closure diverge
        return {"evals": 0, "nontrivial": 0, "fails": [], "counters": {"signed_skipped_recursive": 1}}
    fails = []
    evals = 0
    k3 = min(3, n)
    strs = list(strings_upto(sorted(V), 2 if len(V) > 2 else 3))
    for wperm in sorted(set(_it.permutations([1.0, -1.0, 0.5][:k3]))):
        W = list(wperm) + [1.0] * (n - k3)
        wr = [(w, h, b) for w, (h, b) in zip(W, rules)]
        want = {x: ref_weight(wr, "S", V, Float, x) for x in strs}
        g0 = gram.build(rules, Float, W, V=V)
        for name, _ in xforms.transformations(g0):
            if name.startswith("rename") and "X0" in name:
                continue
            g = gram.build(rules, Float, W, V=V)
            try:
                out = dict(xforms.transformations(g))[name]()
            except CaseTimeout:
                raise
            except Exception as e:  # noqa: BLE001
                fails.append(_fail(f"{name.split('(')[0]} preserves the weighted language (signed weights)", {"rules": case["rules"], "weights": W, "transformation": name}, f"EXC {type(e).__name__}: {e}", "grammar"))
                continue
            orules = rules_of(out)
            for x in strs:
                try:
                    have = ref_weight(orules, out.S, out.V, Float, x, maxit=60)
                except NoConvergence:
                    have = "diverges"
                evals += 1
                if isinstance(have, str) or abs(have - want[x]) > 1e-9:
                    fails.append(_fail(f"{name.split('(')[0]} preserves the weighted language (signed weights)", {"rules": case["rules"], "weights": W, "transformation": name, "x": list(x)}, have, want[x]))
                    break
    return {"evals": evals, "nontrivial": 1, "fails": fails, "counters": {"executions": evals}}


def _run_single(case, var_of, order=None, fresh=False):
    p = cfgp()
    rules = case_rules(case)
    V = case_terms(case)
    table = enum_derivs(rules, "S", V, Poly.D, var_of=var_of)
    inp0 = {"rules": case["rules"]} if var_of is None else {"rules": case["rules"], "duplicates_share_weight": True}
    fails = []
    evals = 0
    nx = 0
    maxlen = p["maxlen"] if len(V) <= 2 else 2
    W0 = gram.poly_weights(len(rules)) if var_of is None else [Poly.var(v) for v in var_of]
    if order is not None:
        inp0["rule_order"] = "reversed"
    ren = None
    if fresh:
        # every occurrence of a nonterminal is an equal but NOT identical object
        ren = gram.FreshNames({"S"} | {h for h, _ in rules} | {y for _, b in rules for y in b if y not in V})
        inp0["names"] = repr(ren)
    g0 = gram.build(rules, Poly, W0, V=V, order=order, rename=ren)
    for name, _ in xforms.transformations(g0):
        # a fresh object per transformation: no cached state is shared between them
        g = gram.build(rules, Poly, W0, V=V, order=order, rename=ren)
        thunk = dict(xforms.transformations(g))[name]
        try:
            out = thunk()
        except CaseTimeout:
            raise
        except Exception as e:  # noqa: BLE001
            fails.append(_fail(f"{name.split('(')[0]} preserves the weighted language", dict(inp0, transformation=name), f"EXC {type(e).__name__}: {e}", "grammar"))
            continue
        nx += 1
        evals += _compare(out, table, V, maxlen, f"{name.split('(')[0]} preserves the weighted language", dict(inp0, transformation=name), fails)
    nontriv = any(w != Poly.zero and len(y) <= maxlen for y, w in table.items())
    return {"evals": evals, "nontrivial": int(nontriv), "fails": fails, "counters": {"executions": nx, "transformations_applied": nx}}


def run_chain(case):
    p = cfgp()
    rules = case_rules(case)
    V = case_terms(case)
    table = enum_derivs(rules, "S", V, Poly.D)
    inp0 = {"rules": case["rules"]}
    fails = []
    evals = 0
    nx = 0
    maxlen = 2 if len(rules) > 3 else p["maxlen"]
    for n1, f1 in xforms.CHAIN:
        g = gram.build(rules, Poly, gram.poly_weights(len(rules)), V=V)
        try:
            mid = xforms.chain_apply(n1, f1, g)
        except CaseTimeout:
            raise
        except Exception:  # noqa: BLE001  (reported by single mode)
            continue
        for n2, f2 in xforms.CHAIN:
            try:
                out = xforms.chain_apply(n2, f2, mid)
            except CaseTimeout:
                raise
            except Exception as e:  # noqa: BLE001
                fails.append(_fail("chain of two transformations preserves the weighted language", dict(inp0, chain=[n1, n2]), f"EXC {type(e).__name__}: {e}", "grammar"))
                continue
            nx += 1
            evals += _compare(out, table, V, maxlen, "chain of two transformations preserves the weighted language", dict(inp0, chain=[n1, n2]), fails)
    nontriv = any(w != Poly.zero and len(y) <= maxlen for y, w in table.items())
    return {"evals": evals, "nontrivial": int(nontriv), "fails": fails, "counters": {"executions": nx, "chains_applied": nx}}


NC_XFORMS = ("trim", "cotrim", "binarize", "separate_start", "separate_terminals", "rename", "renumber", "unaryremove", "unarycycleremove")


def run_nc(case):
    """Free NON-commuting weights: the order of the factors of a derivation's weight (leftmost-derivation
    order: a rule's weight, then its children left to right) is observable."""
    from vf.semirings import NCPoly

    NCPoly.D = cfgp()["D"]
    rules = case_rules(case)
    V = case_terms(case)
    W = [NCPoly.var(i) for i in range(len(rules))]
    wr = [(w, h, b) for w, (h, b) in zip(W, rules)]
    strs = list(strings_upto(sorted(V), 3 if len(V) <= 2 else 2))
    try:
        want = {x: ref_weight(wr, "S", V, NCPoly, x, maxit=60) for x in strs}
    except NoConvergence:
        return {"evals": 0, "nontrivial": 0, "fails": [], "counters": {"nc_skipped": 1}}
    fails = []
    evals = 0
    nx = 0
    g0 = gram.build(rules, NCPoly, W, V=V)
    for name, _ in xforms.transformations(g0):
        if name.split("(")[0] not in NC_XFORMS:
            continue
        g = gram.build(rules, NCPoly, W, V=V)
        pred = f"{name.split('(')[0]} preserves the weighted language (non-commutative weights)"
        inp = {"rules": case["rules"], "transformation": name, "semiring": "NCPoly"}
        try:
            out = dict(xforms.transformations(g))[name]()
        except CaseTimeout:
            raise
        except Exception as e:  # noqa: BLE001
            fails.append(_fail(pred, inp, f"EXC {type(e).__name__}: {e}", "grammar"))
            continue
        nx += 1
        orules = rules_of(out)
        for x in strs:
            try:
                have = ref_weight(orules, out.S, out.V, NCPoly, x, maxit=60)
            except NoConvergence:
                have = "diverges"
            evals += 1
            if isinstance(have, str) or have != want[x]:
                fails.append(_fail(pred, dict(inp, x=list(x)), have, want[x]))
                break
    nontriv = any(w != NCPoly.zero for w in want.values())
    return {"evals": evals, "nontrivial": int(nontriv), "fails": fails, "counters": {"executions": nx, "nc_transformations_applied": nx}}


def run_case(case):
    return {"single": run_single, "chain": run_chain, "signed": run_signed, "nc": run_nc}[case["mode"]](case)
