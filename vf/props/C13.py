"""C13 - determinisation, minimisation, pushing and trimming preserve the language."""
import gc
from fractions import Fraction

from vf import fsm
from vf.gram import short
from vf.ref_fsa import Diverges, equivalent_exact, machine_data, to_matrices
from vf.runner import CaseTimeout, time_limit
from vf.semirings import Q, StarDiverges
from vf.spaces import bfs_machines

from genlm.grammar.wfsa import base

ID = "C13"
LEVEL = "model_checking"
TIER = "quick"
EPS = ""


def cfgp():
    if TIER == "thorough":
        return dict(spaces=[(2, ["a", "b", EPS], 4), (3, ["a", "b", EPS], 3), (3, ["a", EPS], 4)], chain=True)
    return dict(spaces=[(2, ["a", "b", EPS], 3), (3, ["a", EPS], 3)], chain=True)


def init_worker(tier):
    global TIER
    TIER = tier


def acyclic(ops):
    edges = {}
    for o in ops:
        if o[0] == "A":
            if o[1] == o[3]:
                return False
            edges.setdefault(o[1], set()).add(o[3])
    color = {}

    def dfs(x):
        color[x] = 1
        for y in edges.get(x, ()):
            if color.get(y) == 1 or (y not in color and dfs(y)):
                return True
        color[x] = 2
        return False

    return not any(dfs(x) for x in list(edges) if x not in color)


def deterministic(ops):
    seen = set()
    for o in ops:
        if o[0] == "A":
            if o[2] == EPS or (o[1], o[2]) in seen:
                return False
            seen.add((o[1], o[2]))
    return sum(1 for o in ops if o[0] == "I") <= 1


def plan(tier, seed):
    global TIER
    TIER = tier
    p = cfgp()
    cases = []
    nstates = ntrans = 0
    for ns, labels, ma in p["spaces"]:
        ms, tr = bfs_machines(ns, labels, ma)
        nstates += len(ms)
        ntrans += tr
        for ops in ms:
            ac = acyclic(ops)
            if ac or deterministic(ops):
                cases.append({"ops": fsm.ops_json(ops), "acyclic": ac})
                if len(ops) <= 5 and ns == 2:
                    cases.append({"ops": fsm.ops_json(ops), "acyclic": ac, "ints": True})  # falsy / integer symbols
    return {
        "cases": cases,
        "states": nstates,
        "transitions": ntrans,
        "chunk": 40,
        "rule": (
            f"E1: BFS over add_I/add_F/add_arc for the spaces {p['spaces']} (states, labels, max arcs; arc multisets, all subsets of initial/final states, canonical up to state renaming), restricted to acyclic machines "
            "(determinisation must terminate) plus cyclic machines that are already deterministic; exact rational weights (Q). For determinize, min_det, push, trim, trim_vals and the chains push.trim, trim.push, trim_vals.push, "
            "epsremove.determinize, determinize.push, push.determinize, reverse.determinize, determinize.trim: exact equivalence with the input on ALL strings (Schuetzenberger/Tzeng basis search over the rationals); structure: "
            "single initial state, <= 1 non-zero arc per (state, symbol), no epsilon; after push: outgoing + final mass of every state with an accepting continuation == 1 exactly; after trim/trim_vals: every state lies on an accepting path of the result "
            "(own reachability); watchdog 10 s per operation (a timeout on an acyclic input is a violation). non-trivial = the machine has an accepting path"
        ),
        "bounds": {k: v for k, v in p.items()},
        "assumptions": ["determinisation is only required to terminate on the acyclic / already deterministic sub-space"],
    }


def _fail(pred, inp, obs, exp):
    return {"pred": pred, "input": inp, "observed": short(obs), "expected": short(exp)}


def conv(q):
    return q.score if isinstance(q, Q) else Fraction(q)


def mats(m):
    return to_matrices(machine_data(m), f=conv)


def live_sets(m):
    """(accessible, co-accessible) by own reachability over non-zero weights."""
    start, stop, arcs = machine_data(m)
    fwd = {}
    bwd = {}
    for i, a, j, w in arcs:
        fwd.setdefault(i, set()).add(j)
        bwd.setdefault(j, set()).add(i)

    def reach(seed, g):
        seen = set(seed)
        st = list(seed)
        while st:
            x = st.pop()
            for y in g.get(x, ()):
                if y not in seen:
                    seen.add(y)
                    st.append(y)
        return seen

    return reach(start, fwd), reach(stop, bwd)


def check_det_structure(d):
    start, stop, arcs = machine_data(d)
    bad = []
    if len(start) > 1:
        bad.append(f"{len(start)} initial states")
    seen = set()
    for i, a, j, w in arcs:
        if a == EPS:
            bad.append("epsilon arc")
        if (i, a) in seen:
            bad.append(f"two arcs from one state on {a!r}")
        seen.add((i, a))
    return bad


def check_pushed(m):
    start, stop, arcs = machine_data(m)
    acc, co = live_sets(m)
    mass = {}
    for i, a, j, w in arcs:
        mass[i] = mass.get(i, Fraction(0)) + conv(w)
    for q, w in stop.items():
        mass[q] = mass.get(q, Fraction(0)) + conv(w)
    return [(q, mass.get(q, Fraction(0))) for q in m.states if q in co and mass.get(q, Fraction(0)) != 1]


def check_trimmed(m):
    acc, co = live_sets(m)
    return [q for q in m.states if q not in acc or q not in co]


OPS = [
    ("determinize", lambda m: m.determinize, "det"),
    ("min_det", lambda m: m.min_det, "det"),
    ("push", lambda m: m.push, "push"),
    ("trim", lambda m: m.trim, "trim"),
    ("trim_vals", lambda m: m.trim_vals, "trim"),
    ("push.trim", lambda m: m.push.trim, "trim+push"),
    ("trim.push", lambda m: m.trim.push, "push"),
    ("trim_vals.push", lambda m: m.trim_vals.push, "push"),
    ("push.trim_vals", lambda m: m.push.trim_vals, "trim+push"),
    ("epsremove.determinize", lambda m: m.epsremove.determinize, "det"),
    ("determinize.push", lambda m: m.determinize.push, "det+push"),
    ("push.determinize", lambda m: m.push.determinize, "det"),
    ("reverse.determinize.reverse", lambda m: m.reverse.determinize.reverse, ""),
    ("determinize.trim", lambda m: m.determinize.trim, "det+trim"),
    ("trim.determinize", lambda m: m.trim.determinize, "det"),
    ("push.push", lambda m: m.push.push, "push"),
    ("epsremove.trim", lambda m: m.epsremove.trim, "trim"),
]


def run_case(case):
    ops = fsm.ops_from_json(case["ops"])
    n = len(ops)
    FW = [Q(fsm.FRAC[i % 8]) for i in range(n)]
    inp0 = {"ops": case["ops"]}
    if case.get("ints"):
        im = {"a": 0, "b": 1}
        ops = tuple(o if o[0] != "A" else ("A", o[1], im.get(o[2], o[2]), o[3]) for o in ops)
        inp0["symbols"] = "a,b -> 0,1"
    fails = []
    evals = 0
    try:
        ref = to_matrices(fsm.data(ops, FW), f=conv)
    except Diverges:
        return {"evals": 0, "nontrivial": 0, "fails": [], "counters": {"skipped_divergent": 1}}
    for name, f, kinds in OPS:
        if (name.startswith("reverse") or name == "min_det") and not case["acyclic"]:
            continue  # the reverse of a cyclic deterministic machine need not be determinisable
        out = None
        for attempt, limit in enumerate((10, 40)):
            m = fsm.build(base.WFSA, Q, ops, FW)
            try:
                with time_limit(limit):
                    out = f(m)
                break
            except CaseTimeout:
                out = None
                del m
                gc.collect()  # a diverging run leaves a lot of garbage; retry once before reporting
            except StarDiverges:
                out = "skip"
                break
            except Exception as e:  # noqa: BLE001
                fails.append(_fail(f"{name}: returns an automaton", dict(inp0, op=name), f"EXC {type(e).__name__}: {e}", "automaton"))
                out = "skip"
                break
        if out is None:
            fails.append(_fail(f"{name}: terminates", dict(inp0, op=name), "no result within 10 s and again within 40 s", "automaton"))
            continue
        if isinstance(out, str):
            continue
        try:
            pass
        finally:
            pass
        evals += 1
        try:
            w = equivalent_exact(ref, mats(out))
        except Diverges:
            w = "result has a divergent epsilon closure"
        if w is not None:
            fails.append(_fail(f"{name} preserves every string weight", dict(inp0, op=name), f"differs on {w!r}", "equivalent"))
        if "det" in kinds:
            bad = check_det_structure(out)
            if bad:
                fails.append(_fail(f"{name}: result is deterministic", dict(inp0, op=name), bad[:3], "single initial, <=1 arc per (state,symbol), no epsilon"))
        if "push" in kinds:
            bad = check_pushed(out)
            if bad:
                fails.append(_fail(f"{name}: outgoing + final mass of every live state is one", dict(inp0, op=name), bad[:3], 1))
        if "trim" in kinds:
            bad = check_trimmed(out)
            if bad:
                fails.append(_fail(f"{name}: only states on an accepting path remain", dict(inp0, op=name), bad[:3], "none"))
    acc = any(o[0] == "I" for o in ops) and any(o[0] == "F" for o in ops)
    return {"evals": evals, "nontrivial": int(acc), "fails": fails, "counters": {"executions": evals}}
