"""C11 - automaton string weight = sum over accepting paths; epsremove; total weight."""
from fractions import Fraction

from vf import fsm
from vf.gram import short
from vf.ref_fsa import Diverges, closure_exact, fsa_weight, machine_data, mat_weight, paths, spectral_ok, to_matrices
from vf.runner import CaseTimeout
from vf.semirings import Poly, Q, psum
from vf.spaces import bfs_machines, strings_upto

from genlm.grammar.semiring import Boolean, Float
from genlm.grammar.wfsa import base
from genlm.grammar.wfsa.field_wfsa import WFSA as FieldWFSA

ID = "C11"
LEVEL = "model_checking"
TIER = "quick"
EPS = ""


def cfgp():
    if TIER == "thorough":
        return dict(D=6, spaces=[(2, ["a", "b", EPS], 4), (3, ["a", EPS], 3), (1, ["a", "b", EPS], 4)], maxlen=4)
    return dict(D=5, spaces=[(2, ["a", "b", EPS], 3), (1, ["a", "b", EPS], 3)], maxlen=3)


def init_worker(tier):
    global TIER
    TIER = tier
    Poly.D = cfgp()["D"]


def plan(tier, seed):
    global TIER
    TIER = tier
    p = cfgp()
    cases = []
    nstates = 0
    ntrans = 0
    for ns, labels, ma in p["spaces"]:
        ms, tr = bfs_machines(ns, labels, ma)
        nstates += len(ms)
        ntrans += tr
        for ops in ms:
            cases.append({"ops": fsm.ops_json(ops), "labels": labels})
            if len(ops) <= 5:
                cases.append({"ops": fsm.ops_json(ops), "labels": labels, "ints": True})  # falsy / integer symbols a->0, b->1
    for k in range(len(INTERLEAVE_POOLS)):
        cases.append({"mode": "interleave", "pool": k, "ops": []})
    return {
        "cases": cases,
        "states": nstates,
        "transitions": ntrans,
        "chunk": 40,
        "rule": (
            f"E1: BFS over builder operations add_I / add_F / add_arc (arcs as a multiset with multiplicity <= 2, every subset incl. empty of initial and final states, canonical up to state renaming) for the spaces {p['spaces']} "
            f"(states, labels, max arcs); in every state every string <= {p['maxlen']}: free indeterminate weights (Poly_D, D={p['D']}) on wfsa.base.WFSA: m(x) == path-enumeration table, "
            "epsremove has no epsilon label and the same table, total_weight == sum of the table; exact rational pass (Q on base.WFSA, Fractions on the field WFSA) against exact linear algebra incl. closed forms of epsilon cycles; Boolean pass. "
            "non-trivial = the machine has an accepting path"
        ),
        "bounds": {k: v for k, v in p.items()},
        "assumptions": ["free-weight comparison modulo degree > D", "rational pass restricted to machines whose cycle sums converge (spectral test), others counted as skipped"],
    }


def _fail(pred, inp, obs, exp):
    return {"pred": pred, "input": inp, "observed": short(obs), "expected": short(exp)}


def _call(f, *a):
    try:
        return f(*a)
    except CaseTimeout:
        raise
    except Exception as e:  # noqa: BLE001
        return f"EXC {type(e).__name__}: {e}"


def eq(have, want, R):
    """Q is exact; Float with Fraction weights is not (Float.star(0) returns the float 1.0)."""
    if R is Float:
        try:
            return abs(float(have) - float(want)) <= 1e-9 * max(1.0, abs(float(want)))
        except (TypeError, ValueError):
            return False
    return have == want


def table_of(m):
    return {k: v for k, v in paths(machine_data(m)).items() if v != Poly.zero}


INTERLEAVE_POOLS = [
    [("I", 0), ("F", 1), ("A", 0, "a", 1), ("A", 1, EPS, 0), ("A", 0, "a", 0), ("F", 0)],
    [("I", 0), ("I", 1), ("F", 1), ("A", 0, EPS, 1), ("A", 1, "a", 1), ("A", 1, "b", 2), ("F", 2)],
]


def run_interleave(case):
    """Histories interleaving add_I / add_F / add_arc with queries on ONE automaton object."""
    from vf import engine_hist as eh
    from vf.ref_cfg import enum_weighted, rules_of, NoConvergence

    pool = INTERLEAVE_POOLS[case["pool"]]
    W = fsm.poly_weights(len(pool))
    fails = []
    total = {"histories": 0, "transitions": 0}
    for cls, clsname in ((base.WFSA, "base.WFSA"),):

        def make():
            return cls(Poly)

        def apply_builder(m, i):
            op = pool[i]
            if op[0] == "I":
                m.add_I(op[1], W[i])
            elif op[0] == "F":
                m.add_F(op[1], W[i])
            else:
                m.add_arc(op[1], op[2], op[3], W[i])

        def tab(x):
            if isinstance(x, str):
                return x
            try:
                return ("chart", {k: v for k, v in paths(machine_data(x)).items() if v != Poly.zero})
            except Diverges as e:
                return f"diverges {e}"

        def gtab(g):
            if isinstance(g, str):
                return g
            try:
                return ("chart", enum_weighted(rules_of(g), g.S, g.V, maxsteps=60))
            except (NoConvergence, RecursionError) as e:
                return f"diverges {e}"

        queries = [("call", ()), ("call", ("a",)), ("call", ("a", "a")), ("total_weight", None), ("epsremove", None), ("reverse", None), ("trim", None), ("renumber", None), ("to_cfg", None), ("to_bytes", None), ("star", None), ("A+A", None), ("accessible", None), ("dim", None), ("forward", None), ("backward", None)]

        def apply_query(m, q):
            o, c = q
            if o in ("forward", "backward"):
                # state potentials (reading them must not change the automaton: later answers are compared with a fresh object's)
                return _call(lambda: ("val", {repr(k): v for k, v in dict(getattr(m, o)).items() if v != Poly.zero}))
            if o == "call":
                return _call(lambda: ("val", m(c)))
            if o == "total_weight":
                return _call(lambda: ("val", m.total_weight()))
            if o == "accessible":
                return _call(lambda: ("val", sorted(map(repr, m.accessible() & m.co_accessible()))))
            if o == "dim":
                return ("val", m.dim)
            if o == "to_cfg":
                return gtab(_call(lambda: m.to_cfg(S="<S>")))
            f = {"epsremove": lambda: m.epsremove, "reverse": lambda: m.reverse, "trim": lambda: m.trim, "renumber": lambda: m.renumber, "to_bytes": m.to_bytes, "star": m.star, "A+A": lambda: m + m}[o]
            return tab(_call(f))

        class Mutated:
            """Answer of a query that changed the automaton it was asked on; equal to nothing (not even to the
            same mutation on the fresh reference object), so the history is reported."""

            def __init__(self, what):
                self.what = what

            def __eq__(self, o):
                return False

            def __ne__(self, o):
                return True

            def __repr__(self):
                return f"QUERY MODIFIED THE AUTOMATON: {self.what}"

        def snap(m):
            st, sp, arcs = machine_data(m)
            return (sorted((repr(k), repr(v)) for k, v in st.items()), sorted((repr(k), repr(v)) for k, v in sp.items()), sorted(map(repr, arcs)))

        pure_query = apply_query

        def apply_query(m, q):  # noqa: F811
            before = snap(m)
            ans = pure_query(m, q)
            after = snap(m)
            if after != before:
                return Mutated(f"{q[0]}: start/stop/arcs {before} -> {after}")
            return ans

        res = eh.explore_interleaved(make, list(range(len(pool))), queries, apply_builder, apply_query, lambda a, b: a == b, depth=4, max_queries=2 if TIER != "thorough" else 3)
        total["histories"] += res["histories"]
        total["transitions"] += res["transitions"]
        seen = set()
        for hist, have, want in res["violations"]:
            q = queries[hist[-1][1]]
            first_q = next(queries[i] for k, i in hist if k == "q")
            key = (repr(q), repr(first_q))
            if key in seen:
                continue
            seen.add(key)
            pretty = [("build " + repr(pool[i])) if k == "b" else repr(queries[i]) for k, i in hist]
            fails.append(_fail("automaton: answer after add_I/add_F/add_arc equals a fresh automaton's (no stale cache)", {"object": clsname, "history": pretty}, have, want))
    return {"evals": total["transitions"], "nontrivial": 1, "fails": fails, "counters": {"executions": total["transitions"], "hist_histories": total["histories"]}}


def run_case(case):
    if case.get("mode") == "interleave":
        return run_interleave(case)
    p = cfgp()
    ops = fsm.ops_from_json(case["ops"])
    alphabet = [a for a in case["labels"] if a != EPS]
    inp0 = {"ops": case["ops"]}
    if case.get("ints"):
        im = {"a": 0, "b": 1}
        ops = tuple(o if o[0] != "A" else ("A", o[1], im.get(o[2], o[2]), o[3]) for o in ops)
        alphabet = [im.get(a, a) for a in alphabet]
        inp0["symbols"] = "a,b -> 0,1"
    fails = []
    evals = 0
    n = len(ops)
    # ---- free weights
    W = fsm.poly_weights(n)
    tab = paths(fsm.data(ops, W))
    tab = {k: v for k, v in tab.items() if v != Poly.zero}
    m = fsm.build(base.WFSA, Poly, ops, W)
    for x in strings_upto(alphabet, p["maxlen"]):
        have = _call(m, x)
        evals += 1
        want = tab.get(x, Poly.zero)
        if not (isinstance(have, Poly) and have == want):
            fails.append(_fail("m(x) == sum over accepting paths", dict(inp0, x=list(x)), have, want))
    er = _call(lambda: m.epsremove)
    evals += 1
    if isinstance(er, str):
        fails.append(_fail("epsremove: construct", inp0, er, "automaton"))
    else:
        _, _, arcs = machine_data(er)
        if any(a == EPS for _, a, _, _ in arcs):
            fails.append(_fail("epsremove leaves no epsilon arc", inp0, [a for a in arcs if a[1] == EPS][:3], "none"))
        try:
            t2 = table_of(er)
        except Diverges as e:
            t2 = str(e)
        if t2 != tab:
            fails.append(_fail("epsremove preserves every string weight", inp0, t2, tab))
    tw = _call(m.total_weight)
    evals += 1
    want = psum(tab.values())
    if not (isinstance(tw, Poly) and tw == want):
        fails.append(_fail("total_weight == sum over all accepting paths", dict(inp0, semiring="Poly"), tw, want))
    # ---- non-commutative weights (words): initial * arcs in path order * final
    from vf.semirings import NCPoly

    NCPoly.D = 5
    NW = [NCPoly.var(i) for i in range(n)]
    tnc = {k: v for k, v in paths(fsm.data(ops, NW), zero=NCPoly.zero).items() if v != NCPoly.zero}
    mn = fsm.build(base.WFSA, NCPoly, ops, NW)
    for x in strings_upto(alphabet, min(p["maxlen"], 3)):
        have = _call(mn, x)
        evals += 1
        want = tnc.get(x, NCPoly.zero)
        if not (isinstance(have, NCPoly) and have == want):
            fails.append(_fail("m(x) == sum over accepting paths (non-commutative weights, factors in path order)", dict(inp0, x=list(x)), have, want))
            break
    twn = _call(mn.total_weight)
    evals += 1
    wantn = NCPoly.zero
    for v in tnc.values():
        wantn = wantn + v
    if not (isinstance(twn, NCPoly) and twn == wantn):
        fails.append(_fail("total_weight == sum over all accepting paths (non-commutative weights)", inp0, twn, wantn))
    # ---- Boolean
    mb = fsm.build(base.WFSA, Boolean, ops, [Boolean.one] * n)
    for x in strings_upto(alphabet, p["maxlen"]):
        have = _call(mb, x)
        evals += 1
        want = Boolean(x in tab)  # a path of degree <= D exists iff a path exists for these tiny machines? no: only one direction
        if x in tab and have != Boolean.one:
            fails.append(_fail("Boolean m(x) true when an accepting path exists", dict(inp0, x=list(x)), have, True))
        if isinstance(have, str):
            fails.append(_fail("Boolean m(x)", dict(inp0, x=list(x)), have, want))
    twb = _call(mb.total_weight)
    evals += 1
    if twb != Boolean(bool(tab)):
        fails.append(_fail("total_weight == sum over all accepting paths", dict(inp0, semiring="Boolean"), twb, Boolean(bool(tab))))
    # ---- exact rationals
    FW = [fsm.FRAC[i % 8] for i in range(n)]
    dq = fsm.data(ops, FW)
    skipped = 0
    try:
        mf = to_matrices(dq)
        start, stop, arcs = dq
        states = sorted({q for q in start} | {q for q in stop} | {i for i, _, _, _ in arcs} | {j for _, _, j, _ in arcs})
        A = {}
        for i, a, j, w in arcs:
            A[(i, j)] = A.get((i, j), 0) + w
        C = closure_exact(states, A) if spectral_ok(states, A) else None
    except Diverges:
        mf = None
        C = None
    if mf is None:
        skipped = 1
    else:
        for cls, R, wts, conv in ((base.WFSA, Q, [Q(w) for w in FW], lambda v: v.score if isinstance(v, Q) else v), (FieldWFSA, Float, FW, lambda v: v)):
            mq = fsm.build(cls, R, ops, wts)
            for x in strings_upto(alphabet, p["maxlen"]):
                have = _call(mq, x)
                evals += 1
                want = mat_weight(mf, x)
                if isinstance(have, str) or not eq(conv(have), want, R):
                    fails.append(_fail(f"{cls.__module__.split('.')[-1]}.WFSA({R.__name__}) m(x) == exact path sum", dict(inp0, x=list(x)), have, want))
            if C is not None:
                want = sum((start[i] * C.get((i, j), 0) * stop[j] for i in start for j in stop), Fraction(0))
                have = _call(mq.total_weight)
                evals += 1
                if isinstance(have, str) or not eq(conv(have), want, R):
                    fails.append(_fail("total_weight == sum over all accepting paths", dict(inp0, semiring=R.__name__), have, want))
    # ---- signed rational weights with exact cancellation (parallel arcs / epsilon arcs summing to zero)
    import itertools as _it

    if 1 <= n:
        k3 = min(3, sum(1 for o in ops if o[0] == "A"))
        arc_idx = [i for i, o in enumerate(ops) if o[0] == "A"][:k3]
        for wperm in sorted(set(_it.permutations([Fraction(1), Fraction(-1), Fraction(1, 2)][:k3]))):
            SW = [Fraction(1)] * n
            for i, w in zip(arc_idx, wperm):
                SW[i] = w
            try:
                mfs = to_matrices(fsm.data(ops, SW))
            except Diverges:
                continue
            mq = fsm.build(base.WFSA, Q, ops, [Q(w) for w in SW])
            for x in strings_upto(alphabet, min(p["maxlen"], 3)):
                have = _call(mq, x)
                evals += 1
                want = mat_weight(mfs, x)
                if isinstance(have, str) or not isinstance(have, Q) or have.score != want:
                    fails.append(_fail("m(x) == exact path sum (signed weights with cancellation)", dict(inp0, x=list(x), weights=[str(w) for w in SW]), have, want))
                    break
    return {"evals": evals, "nontrivial": int(bool(tab)), "fails": fails, "counters": {"executions": evals, "rational_skipped_divergent": skipped}}
