"""C15 - algebraic path solver: closures, least solutions, SCC decomposition."""
import itertools
from fractions import Fraction

from vf.gram import short
from vf.ref_fsa import closure_exact, spectral_ok
from vf.runner import CaseTimeout
from vf.semirings import Poly, Q
from vf.spaces import all_graphs

from genlm.grammar.linear import WeightedGraph
from genlm.grammar.semiring import Boolean, MaxTimes

ID = "C15"
LEVEL = "model_checking"
TIER = "quick"
FR = [Fraction(1, 2), Fraction(1, 3), Fraction(1, 5), Fraction(2, 7), Fraction(1, 4), Fraction(3, 10), Fraction(2, 5), Fraction(1, 6), Fraction(1, 7)]


def cfgp():
    if TIER == "thorough":
        return dict(D=6, sizes=(1, 2, 3, 4))
    return dict(D=6, sizes=(1, 2, 3))


def init_worker(tier):
    global TIER
    TIER = tier
    Poly.D = cfgp()["D"]


def plan(tier, seed):
    global TIER
    TIER = tier
    p = cfgp()
    cases = []
    trans = 0
    for n in p["sizes"]:
        for es in all_graphs(n):
            cases.append({"n": n, "edges": [list(e) for e in es]})
            trans += len(es)
    if 4 not in p["sizes"]:
        # quick tier: every 4-node graph with at most 5 edges, and every 5-node graph with at most 3
        for n, me in ((4, 5), (5, 3)):
            for es in all_graphs(n):
                if len(es) > me:
                    break
                if any(i == n - 1 or j == n - 1 for i, j in es):  # graphs not already counted with fewer nodes
                    cases.append({"n": n, "edges": [list(e) for e in es]})
                    trans += len(es)
    ngraphs = len(cases)
    for k in range(len(INTERLEAVE_POOLS)):
        cases.append({"n": 3, "edges": [], "mode": "interleave", "pool": k})
    for c in list(cases):
        if c.get("mode") is None and c["n"] <= 3 and len(c["edges"]) >= 1:
            cases.append(dict(c, mode="hist"))
    return {
        "cases": cases,
        "states": ngraphs,
        "transitions": trans,
        "chunk": 50 if tier != "thorough" else 400,
        "rule": (
            f"E1: every directed graph on {p['sizes']} nodes (self loops, nested cycles, several components, isolated nodes) built by G[i,j] = w; free edge indeterminates (Poly_D, D={p['D']}) and exact rationals (Q), Boolean, MaxTimes. "
            "closure_scc_based == closure_reference == closure() == sum_k A^k (own matrix-power sum modulo degree / exact (I-A)^-1 by own Gaussian elimination); solve_left(b) == b.A*, solve_right(b) == A*.b for an indeterminate right-hand side b (and unit vectors); "
            "blocks == the strongly connected components (own mutual-reachability partition), each node in exactly one block, every cross-component edge goes from an earlier to a later block; buckets consistent with blocks. "
            "hist mode (E3): for every graph on <= 3 nodes, BFS over call histories of depth 2 on ONE graph object (solve_left, solve_right, closure_scc_based, closure_reference, blocks, Blocks) - every answer must equal a fresh object's. "
            "non-trivial = the graph has a cycle or at least two edges"
        ),
        "bounds": {k: v for k, v in p.items()},
        "assumptions": ["modulo degree > D for free weights; the rational pass is restricted to graphs whose path sums converge"],
    }


def _fail(pred, inp, obs, exp):
    return {"pred": pred, "input": inp, "observed": short(obs), "expected": short(exp)}


def _call(f, *a):
    try:
        return f(*a)
    except CaseTimeout:
        raise
    except Exception as e:  # noqa: BLE001
        return f"EXC {type(e).__name__}: {e}"


def build(R, n, edges, W):
    G = WeightedGraph(R)
    for (i, j), w in zip(edges, W):
        G[i, j] = w
    G.N |= set(range(n))
    return G


def poly_closure(n, edges, W):
    """sum_k A^k modulo degree, by own matrix-power iteration."""
    A = {(i, j): w for (i, j), w in zip(edges, W)}
    C = {(i, i): Poly.one for i in range(n)}
    P = dict(C)
    for _ in range(Poly.D + 1):
        NP = {}
        for (i, k), u in P.items():
            for (k2, j), v in A.items():
                if k2 != k:
                    continue
                w = u * v
                if w == Poly.zero:
                    continue
                NP[(i, j)] = NP[(i, j)] + w if (i, j) in NP else w
        if not NP:
            break
        for k, v in NP.items():
            C[k] = C[k] + v if k in C else v
        P = NP
    return C


def sccs(n, edges):
    reach = {i: {i} for i in range(n)}
    ch = True
    while ch:
        ch = False
        for i, j in edges:
            for s in range(n):
                if i in reach[s] and j not in reach[s]:
                    reach[s].add(j)
                    ch = True
    comps = set()
    for i in range(n):
        comps.add(frozenset(j for j in range(n) if j in reach[i] and i in reach[j]))
    return comps


def nz(chart, zero):
    return {k: v for k, v in chart.items() if v != zero}


def run_hist(case):
    """E3 on WeightedGraph objects: cached decomposition must not be disturbed by earlier calls."""
    from vf import engine_hist as eh

    n = case["n"]
    edges = [tuple(e) for e in case["edges"]]
    W = [Poly.var(k) for k in range(len(edges))]
    bvars = {i: Poly.var(20 + i) for i in range(n)}

    def bchart():
        bc = Poly.chart()
        for i, v in bvars.items():
            bc[i] = v
        return bc

    ops = ["solve_left", "solve_right", "closure_scc_based", "closure_reference", "blocks", "Blocks"]

    def apply_op(G, op):
        try:
            if op == "solve_left":
                return ("chart", nz(dict(G.solve_left(bchart())), Poly.zero))
            if op == "solve_right":
                return ("chart", nz(dict(G.solve_right(bchart())), Poly.zero))
            if op == "closure_scc_based":
                return ("chart", nz(dict(G.closure_scc_based()), Poly.zero))
            if op == "closure_reference":
                return ("chart", nz(dict(G.closure_reference()), Poly.zero))
            if op == "blocks":
                return ("val", [sorted(b) for b in G.blocks])
            return ("val", [(sorted(b), sorted((k, repr(v)) for k, v in dict(B).items() if v != Poly.zero)) for b, B in G.Blocks])
        except CaseTimeout:
            raise
        except Exception as e:  # noqa: BLE001
            return f"EXC {type(e).__name__}: {e}"

    def dump(G):
        d = G.__dict__
        return tuple((k, repr(d[k]) if k in d else None) for k in ("blocks", "buckets", "Blocks")) + (tuple(sorted(map(repr, G.E.items()))), tuple(sorted(G.N)))

    res = eh.explore(lambda: build(Poly, n, edges, W), ops, apply_op, dump, 2, lambda a, b: a == b)
    fails = []
    seen = set()
    for hist, i, have, want in res["violations"]:
        if ops[i] in seen:
            continue
        seen.add(ops[i])
        fails.append(_fail("answer independent of earlier calls on the same graph object", {"n": n, "edges": case["edges"], "history": [ops[j] for j in hist], "query": ops[i]}, have, want))
    return {"evals": res["transitions"], "nontrivial": int(len(edges) >= 2), "fails": fails, "counters": {"executions": res["transitions"], "hist_states": res["states"], "hist_transitions": res["transitions"]}}


INTERLEAVE_POOLS = [
    [(0, 1), (1, 2), (2, 0), (1, 1), (2, 1)],
    [(0, 0), (0, 1), (1, 0), (1, 2), (2, 2)],
]


def run_interleave(case):
    """Histories interleaving G[i,j] = w with queries on ONE graph object."""
    from vf import engine_hist as eh

    pool = INTERLEAVE_POOLS[case["pool"]]
    W = [Poly.var(k) for k in range(len(pool))]
    bvars = {i: Poly.var(20 + i) for i in range(3)}

    def make():
        G = WeightedGraph(Poly)
        G.N |= {0, 1, 2}
        return G

    def apply_builder(G, i):
        if i >= len(pool):
            # overwrite an edge by the semiring zero (what `G[i,j] += w` does when weights cancel)
            G[pool[i - len(pool)]] = Poly.zero
        else:
            G[pool[i]] = W[i]

    def bchart():
        bc = Poly.chart()
        for i, v in bvars.items():
            bc[i] = v
        return bc

    queries = ["solve_left", "solve_right", "closure_scc_based", "closure_reference", "closure", "blocks", "buckets"]

    def apply_query(G, op):
        try:
            if op == "solve_left":
                return ("chart", nz(dict(G.solve_left(bchart())), Poly.zero))
            if op == "solve_right":
                return ("chart", nz(dict(G.solve_right(bchart())), Poly.zero))
            if op == "closure_scc_based":
                return ("chart", nz(dict(G.closure_scc_based()), Poly.zero))
            if op == "closure_reference":
                return ("chart", nz(dict(G.closure_reference()), Poly.zero))
            if op == "closure":
                return ("chart", nz(dict(G.closure().E), Poly.zero))
            if op == "blocks":
                return ("val", sorted(sorted(b) for b in G.blocks))
            return ("val", sorted((k, sorted(G.blocks[v])) for k, v in G.buckets.items()))
        except CaseTimeout:
            raise
        except Exception as e:  # noqa: BLE001
            return f"EXC {type(e).__name__}: {e}"

    res = eh.explore_interleaved(make, list(range(len(pool) + 2)), queries, apply_builder, apply_query, lambda a, b: a == b, depth=4, max_queries=2)
    fails = []
    seen = set()
    for hist, have, want in res["violations"]:
        q = queries[hist[-1][1]]
        first_q = next(queries[i] for k, i in hist if k == "q")
        if (q, first_q) in seen:
            continue
        seen.add((q, first_q))
        pretty = [(f"G[{pool[i]}]=w{i}" if i < len(pool) else f"G[{pool[i - len(pool)]}]=zero") if k == "b" else queries[i] for k, i in hist]
        fails.append(_fail("graph: answer after G[i,j]=w equals a fresh graph's (no stale decomposition)", {"history": pretty}, have, want))
    return {"evals": res["transitions"], "nontrivial": 1, "fails": fails, "counters": {"executions": res["transitions"], "hist_states": res["histories"], "hist_transitions": res["transitions"]}}


def run_case(case):
    if case.get("mode") == "interleave":
        return run_interleave(case)
    if case.get("mode") == "hist":
        return run_hist(case)
    n = case["n"]
    edges = [tuple(e) for e in case["edges"]]
    inp0 = {"n": n, "edges": case["edges"]}
    fails = []
    evals = 0
    # ---- free weights
    W = [Poly.var(k) for k in range(len(edges))]
    want = {k: v for k, v in poly_closure(n, edges, W).items() if v != Poly.zero}
    for name, f in (("closure_scc_based", lambda G: G.closure_scc_based()), ("closure_reference", lambda G: G.closure_reference()), ("closure", lambda G: G.closure().E)):
        have = _call(lambda: f(build(Poly, n, edges, W)))
        evals += 1
        h = have if isinstance(have, str) else nz(dict(have), Poly.zero)
        if h != want:
            fails.append(_fail(f"{name} == sum of all powers of the weight matrix", dict(inp0, method=name), h, want))
    if n <= 3:
        # non-initial state: start from the complete graph and overwrite every edge outside the
        # case's edge set by the semiring zero (as `G[i,j] += w` does when weights cancel)
        def build_by_zeroing():
            G = WeightedGraph(Poly)
            allp = [(i, j) for i in range(n) for j in range(n)]
            for k, e in enumerate(allp):
                G[e] = Poly.var(40 + k)
            wmap = dict(zip(edges, W))
            for e in allp:
                G[e] = wmap.get(e, Poly.zero)
            G.N |= set(range(n))
            return G

        for name, f in (("closure_scc_based", lambda G: G.closure_scc_based()), ("closure_reference", lambda G: G.closure_reference())):
            have = _call(lambda: f(build_by_zeroing()))
            evals += 1
            h = have if isinstance(have, str) else nz(dict(have), Poly.zero)
            if h != want:
                fails.append(_fail(f"{name} after edges were overwritten by zero == closure of the remaining graph", dict(inp0, method=name), h, want))
    if n <= 3:
        # the graph returned by closure() is a NEW object: editing it (new nodes, new edges) leaves the source
        # graph and its answers unchanged
        G = build(Poly, n, edges, W)
        Cg = _call(lambda: G.closure())
        evals += 1
        if not isinstance(Cg, str):
            nodes_before = set(G.N)
            try:
                Cg["new1", "new2"] = Poly.var(45)
                Cg[0, "new1"] = Poly.var(46)
            except Exception as e:  # noqa: BLE001
                fails.append(_fail("the graph returned by closure() can be edited", inp0, f"EXC {type(e).__name__}: {e}", "ok"))
            if set(G.N) != nodes_before:
                fails.append(_fail("editing the graph returned by closure() leaves the source graph's nodes unchanged", inp0, sorted(map(repr, G.N)), sorted(map(repr, nodes_before))))
            for name, f in (("closure_reference", lambda: G.closure_reference()), ("closure_scc_based", lambda: G.closure_scc_based())):
                have = _call(f)
                h = have if isinstance(have, str) else nz(dict(have), Poly.zero)
                if h != want:
                    fails.append(_fail(f"{name} of the source after editing the graph returned by closure()", dict(inp0, method=name), h, want))
    bvars = [Poly.var(20 + i) for i in range(n)]
    for side in ("left", "right"):
        for bname, b in [("indeterminate", {i: bvars[i] for i in range(n)})] + [(f"unit{i}", {i: Poly.one}) for i in range(n)]:
            G = build(Poly, n, edges, W)
            bc = Poly.chart()
            for i, v in b.items():
                bc[i] = v
            have = _call((G.solve_left if side == "left" else G.solve_right), bc)
            evals += 1
            exp = {}
            for (i, j), c in want.items():
                if side == "left" and i in b:
                    w = b[i] * c
                    exp[j] = exp[j] + w if j in exp else w
                if side == "right" and j in b:
                    w = c * b[j]
                    exp[i] = exp[i] + w if i in exp else w
            exp = {k: v for k, v in exp.items() if v != Poly.zero}
            h = have if isinstance(have, str) else nz(dict(have), Poly.zero)
            if h != exp:
                fails.append(_fail(f"solve_{side}(b) is the least solution", dict(inp0, b=bname), h, exp))
            # the right-hand side belongs to the caller: it is not modified, and solving again with the
            # SAME object (on the same graph) gives the same answer
            if nz(dict(bc), Poly.zero) != {i: v for i, v in b.items() if v != Poly.zero}:
                fails.append(_fail(f"solve_{side}(b) leaves its argument b unchanged", dict(inp0, b=bname), nz(dict(bc), Poly.zero), b))
            else:
                have2 = _call((G.solve_left if side == "left" else G.solve_right), bc)
                evals += 1
                h2 = have2 if isinstance(have2, str) else nz(dict(have2), Poly.zero)
                if h2 != exp:
                    fails.append(_fail(f"solve_{side}(b) called twice with the same b gives the same answer", dict(inp0, b=bname), h2, exp))
            if n <= 3 and bname == "indeterminate":
                # the same system on a graph reached by overwriting edges with zero
                bz = Poly.chart()
                for i, v in b.items():
                    bz[i] = v
                Gz = _call(build_by_zeroing)
                have3 = Gz if isinstance(Gz, str) else _call((Gz.solve_left if side == "left" else Gz.solve_right), bz)
                evals += 1
                h3 = have3 if isinstance(have3, str) else nz(dict(have3), Poly.zero)
                if h3 != exp:
                    fails.append(_fail(f"solve_{side}(b) after edges were overwritten by zero", dict(inp0, b=bname), h3, exp))
    # ---- non-commutative weights (words over edge letters): the order of the factors in every
    # product is observable, the property only assumes a closed semiring
    from vf.semirings import NCPoly

    NCPoly.D = 4 if n >= 4 else 5
    if n <= 4:
        NW = [NCPoly.var(k) for k in range(len(edges))]
        A = {e: w for e, w in zip(edges, NW)}
        C = {(i, i): NCPoly.one for i in range(n)}
        P = dict(C)
        for _ in range(NCPoly.D + 1):
            NP = {}
            for (i, k), u in P.items():
                for (k2, j), v in A.items():
                    if k2 != k:
                        continue
                    w = u * v
                    if w == NCPoly.zero:
                        continue
                    NP[(i, j)] = NP[(i, j)] + w if (i, j) in NP else w
            if not NP:
                break
            for k, v in NP.items():
                C[k] = C[k] + v if k in C else v
            P = NP
        wantnc = {k: v for k, v in C.items() if v != NCPoly.zero}
        for name, f in (("closure_scc_based", lambda G: G.closure_scc_based()), ("closure_reference", lambda G: G.closure_reference())):
            have = _call(lambda: f(build(NCPoly, n, edges, NW)))
            evals += 1
            h = have if isinstance(have, str) else nz(dict(have), NCPoly.zero)
            if h != wantnc:
                fails.append(_fail(f"{name} == sum of all powers (non-commutative weights)", dict(inp0, method=name), h, wantnc))
        bnc = {i: NCPoly.var(20 + i) for i in range(n)}
        for side in ("left", "right"):
            G = build(NCPoly, n, edges, NW)
            bc = NCPoly.chart()
            for i, v in bnc.items():
                bc[i] = v
            have = _call((G.solve_left if side == "left" else G.solve_right), bc)
            evals += 1
            exp = {}
            for (i, j), c in wantnc.items():
                if side == "left":
                    w = bnc[i] * c
                    exp[j] = exp[j] + w if j in exp else w
                else:
                    w = c * bnc[j]
                    exp[i] = exp[i] + w if i in exp else w
            exp = {k: v for k, v in exp.items() if v != NCPoly.zero}
            h = have if isinstance(have, str) else nz(dict(have), NCPoly.zero)
            if h != exp:
                fails.append(_fail(f"solve_{side}(b) is the least solution (non-commutative weights)", dict(inp0), h, exp))
    # ---- decomposition
    G = build(Poly, n, edges, W)
    blocks = _call(lambda: G.blocks)
    evals += 1
    if isinstance(blocks, str):
        fails.append(_fail("blocks: construct", inp0, blocks, "list of components"))
    else:
        comps = sccs(n, edges)
        if set(map(frozenset, blocks)) != comps or len(blocks) != len(comps) or sum(len(b) for b in blocks) != n:
            fails.append(_fail("blocks are exactly the strongly connected components", inp0, [sorted(b) for b in blocks], [sorted(c) for c in comps]))
        pos = {x: k for k, b in enumerate(blocks) for x in b}
        for i, j in edges:
            if pos.get(i) is not None and pos.get(j) is not None and pos[i] != pos[j] and not (pos[i] < pos[j]):
                fails.append(_fail("block order is compatible with the direction of the edges", dict(inp0, edge=[i, j]), [sorted(b) for b in blocks], "tail's block before head's block"))
        if G.buckets != pos:
            fails.append(_fail("buckets maps each node to its block", inp0, G.buckets, pos))
    # ---- exact rationals / Boolean / MaxTimes
    FW = [FR[k % len(FR)] for k in range(len(edges))]
    E = {e: w for e, w in zip(edges, FW)}
    C = closure_exact(range(n), E) if spectral_ok(range(n), E) else None
    skipped = 0
    if C is None:
        skipped = 1
    else:
        for name, f in (("closure_scc_based", lambda G: G.closure_scc_based()), ("closure_reference", lambda G: G.closure_reference())):
            have = _call(lambda: f(build(Q, n, edges, [Q(w) for w in FW])))
            evals += 1
            h = have if isinstance(have, str) else {k: v.score for k, v in have.items() if v != Q.zero}
            if h != C:
                fails.append(_fail(f"{name} == (I-A)^-1 over the rationals", dict(inp0, method=name), h, C))
    reach = {}
    for (i, j), v in want.items():
        reach[(i, j)] = True
    for R, one in ((Boolean, Boolean.one), (MaxTimes, None)):
        if R is Boolean:
            WW = [Boolean.one] * len(edges)
            have = _call(lambda: build(R, n, edges, WW).closure_scc_based())
            evals += 1
            # Poly table is complete for reachability on <= 4 nodes when D >= n
            h = have if isinstance(have, str) else {k for k, v in have.items() if v != Boolean.zero}
            if h != set(reach):
                fails.append(_fail("Boolean closure == reachability", inp0, h, sorted(reach)))
        else:
            WW = [MaxTimes(FR[k % len(FR)]) for k in range(len(edges))]
            have = _call(lambda: build(R, n, edges, WW).closure_scc_based())
            evals += 1
            # best path weight: weights < 1 so simple paths are optimal; evaluate the Poly table monomials
            exp = {}
            for k, poly in want.items():
                best = Fraction(0)
                for mono in poly.t:
                    v = Fraction(1)
                    for idx in mono:
                        v *= FR[idx % len(FR)]
                    best = max(best, v)
                exp[k] = best
            h = have if isinstance(have, str) else {k: v.score for k, v in have.items() if v != MaxTimes.zero}
            if h != exp:
                fails.append(_fail("MaxTimes closure == best path weight", inp0, h, exp))
    nontriv = len(edges) >= 2 or any(i == j for i, j in edges)
    return {"evals": evals, "nontrivial": int(nontriv), "fails": fails, "counters": {"executions": evals, "rational_skipped_divergent": skipped}}
