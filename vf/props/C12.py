"""C12 - rational operations implement the algebra of weighted languages."""
import itertools
from fractions import Fraction

from vf import fsm
from vf.gram import short
from vf.ref_fsa import Diverges, machine_data, mat_weight, paths, to_matrices
from vf.runner import CaseTimeout
from vf.semirings import Poly, psum
from vf.spaces import bfs_machines, strings_upto

from genlm.grammar.semiring import Float
from genlm.grammar.wfsa import base
from genlm.grammar.wfsa.field_wfsa import WFSA as FieldWFSA

ID = "C12"
LEVEL = "model_checking"
TIER = "quick"
EPS = ""


def cfgp():
    if TIER == "thorough":
        return dict(D=6, operand_spaces=[(1, ["a", "b", EPS], 2), (2, ["a", EPS], 2), (2, ["a", "b", EPS], 2)], pair_cap=None, nest=True)
    return dict(D=5, operand_spaces=[(1, ["a", "b", EPS], 2), (2, ["a", EPS], 2)], pair_cap=None, nest=True)


def init_worker(tier):
    global TIER
    TIER = tier
    Poly.D = cfgp()["D"]


def operands():
    p = cfgp()
    out = []
    nstates = ntrans = 0
    for ns, labels, ma in p["operand_spaces"]:
        ms, tr = bfs_machines(ns, labels, ma)
        nstates += len(ms)
        ntrans += tr
        for ops in ms:
            if not any(o[0] == "I" for o in ops) or not any(o[0] == "F" for o in ops):
                continue  # zero language: kept only once below
            out.append(ops)
    out.append(())  # the empty machine
    out.append((("I", 0),))
    return out, nstates, ntrans


def plan(tier, seed):
    global TIER
    TIER = tier
    p = cfgp()
    ops_list, nstates, ntrans = operands()
    cases = []
    for i, a in enumerate(ops_list):
        cases.append({"mode": "unary", "A": fsm.ops_json(a)})
    small = [o for o in ops_list if len(o) <= 4]
    for a in ops_list:
        for b in small:
            cases.append({"mode": "binary", "A": fsm.ops_json(a), "B": fsm.ops_json(b)})
    # constructors
    cases.append({"mode": "ctor"})
    return {
        "cases": cases,
        "states": nstates,
        "transitions": ntrans + len(cases),
        "chunk": 100,
        "rule": (
            f"E1: operands = every automaton reachable by add_I/add_F/add_arc in the spaces {p['operand_spaces']} (states, labels, max arcs; non-empty I and F, plus the empty machine), free indeterminate weights with disjoint "
            f"indeterminates per operand (Poly_D, D={p['D']}). unary: star, kleene_plus, reverse, rename by every injective map into a 3-name pool, renumber, A+zero, one*A, A*one, nested star(A).reverse / reverse(A).star / (A+A)*A. "
            "binary: every ordered pair (A, B with <=4 builder ops): A+B, A*B, (A+B).star, (A*B).reverse, A.star*B. ctor: zero, one, lift, from_string, from_strings (all sets of <=2 strings of length <=2). "
            "Oracle: the defining sums (splits, factorisations - finite modulo degree) computed from the operands' path-enumeration tables, compared for ALL strings at once with the path-enumeration table of the result; "
            "field WFSA pass with Fractions on +, *, reverse vs exact matrices. non-trivial = every operand has an accepting path"
        ),
        "bounds": {k: v for k, v in p.items()},
        "assumptions": ["modulo degree > D; base.WFSA is used for semiring-class weights, the field WFSA for Float (as the library intends)"],
    }


def _fail(pred, inp, obs, exp):
    return {"pred": pred, "input": inp, "observed": short(obs), "expected": short(exp)}


def _call(f, *a):
    try:
        return f(*a)
    except CaseTimeout:
        raise
    except Exception as e:  # noqa: BLE001
        return f"EXC {type(e).__name__}: {e}"


def clean(t):
    return {k: v for k, v in t.items() if v != Poly.zero}


def t_add(a, b):
    out = dict(a)
    for k, v in b.items():
        out[k] = out[k] + v if k in out else v
    return clean(out)


def t_mul(a, b):
    out = {}
    for u, wu in a.items():
        for v, wv in b.items():
            w = wu * wv
            if w == Poly.zero:
                continue
            k = u + v
            out[k] = out[k] + w if k in out else w
    return out


def t_one():
    return {(): Poly.one}


def t_star(a):
    out = t_one()
    p = t_one()
    for _ in range(Poly.D + 1):
        p = t_mul(p, a)
        if not p:
            break
        out = t_add(out, p)
    return out


def t_plus(a):
    return t_mul(a, t_star(a))


def t_rev(a):
    return {tuple(reversed(k)): v for k, v in a.items()}


def table_of(m):
    if isinstance(m, str):
        return m
    try:
        return clean(paths(machine_data(m)))
    except Diverges as e:
        return f"diverges: {e}"


def run_unary(case):
    A = fsm.ops_from_json(case["A"])
    r = _run_unary(case, A, fsm.poly_weights(len(A)), "all-indeterminate")
    if sum(1 for o in A if o[0] == "A") >= 1:
        # spend the degree budget on arcs: initial weights are one (final weights stay
        # indeterminate so that star(A) converges when A accepts the empty string)
        r2 = _run_unary(case, A, fsm.arc_weights(A), "unit-initial")
        r["evals"] += r2["evals"]
        r["fails"] += r2["fails"]
        r["counters"]["executions"] += r2["counters"]["executions"]
    return r


def _run_unary(case, A, W, wname):
    tA = clean(paths(fsm.data(A, W)))
    inp0 = {"A": case["A"], "weights": wname}
    fails = []
    evals = 0

    def mk():
        return fsm.build(base.WFSA, Poly, A, W)

    exprs = [
        ("star", lambda m: m.star(), t_star(tA)),
        ("kleene_plus", lambda m: m.kleene_plus(), t_plus(tA)),
        ("reverse", lambda m: m.reverse, t_rev(tA)),
        ("renumber", lambda m: m.renumber, tA),
        ("A+zero", lambda m: m + m.zero, tA),
        ("zero+A", lambda m: m.zero + m, tA),
        ("one*A", lambda m: m.one * m, tA),
        ("A*one", lambda m: m * m.one, tA),
        ("A*zero", lambda m: m * m.zero, {}),
        ("star.reverse", lambda m: m.star().reverse, t_rev(t_star(tA))),
        ("reverse.star", lambda m: m.reverse.star(), t_star(t_rev(tA))),
        ("reverse.reverse", lambda m: m.reverse.reverse, tA),
        ("(A+A)*A", lambda m: (m + m) * m, t_mul(t_add(tA, tA), tA)),
        ("star.star-free: plus+one", lambda m: m.kleene_plus() + m.one, t_star(tA)),
        ("epsremove.star", lambda m: m.epsremove.star(), t_star(tA)),
        ("trim", lambda m: m.trim, tA),
    ]
    states = sorted({o[1] for o in A if o[0] != "A"} | {o[1] for o in A if o[0] == "A"} | {o[3] for o in A if o[0] == "A"})
    pool = ["p", "q", "r"]
    for img in itertools.permutations(pool, len(states)):
        mp = dict(zip(states, img))
        exprs.append((f"rename({mp})", lambda m, mp=mp: m.rename(lambda s: mp[s]), tA))
    for name, f, want in exprs:
        res = _call(lambda: f(mk()))
        have = table_of(res)
        evals += 1
        if have != want:
            fails.append(_fail(f"{name.split('(')[0] if name.startswith('rename') else name} == defining sum", dict(inp0, expr=name), have, want))
    # derived machines must not alias the source: take d = op(A), edit A afterwards, d keeps its language
    # and d's own derived machines are computed from d (not from the edited A)
    if wname == "all-indeterminate":
        extra = Poly.var(40)
        for name, f, want in exprs[:4] + [e for e in exprs if e[0] in ("trim", "epsremove.star")]:
            src = mk()
            d = _call(lambda: f(src))
            if isinstance(d, str):
                continue
            before = table_of(d)
            try:
                q0 = next(iter(sorted(src.states, key=repr)), 0)
                src.add_arc(q0, "b", q0, extra)
                src.add_F(q0, extra)
                src.add_I(q0, extra)
            except Exception:  # noqa: BLE001
                continue
            evals += 1
            after = table_of(d)
            if after != before:
                fails.append(_fail("a derived automaton is unaffected by later edits of its source", dict(inp0, expr=name), after, before))
            rr = table_of(_call(lambda: d.reverse))
            if not isinstance(before, str) and rr != t_rev(before):
                fails.append(_fail("reverse of a derived automaton is computed from that automaton", dict(inp0, expr=name), rr, t_rev(before)))
            r2 = table_of(_call(lambda: d.reverse.reverse))
            if not isinstance(before, str) and r2 != before:
                fails.append(_fail("reverse.reverse of a derived automaton", dict(inp0, expr=name), r2, before))
    return {"evals": evals, "nontrivial": int(bool(tA)), "fails": fails, "counters": {"executions": evals}}


def run_binary(case):
    A = fsm.ops_from_json(case["A"])
    B = fsm.ops_from_json(case["B"])
    if sum(1 for o in A + B if o[0] == "A") >= 2:
        WA = fsm.arc_weights(A)
        WB = fsm.arc_weights(B, offset=len(A))
    else:
        WA = fsm.poly_weights(len(A))
        WB = fsm.poly_weights(len(B), offset=len(A))
    tA = clean(paths(fsm.data(A, WA)))
    tB = clean(paths(fsm.data(B, WB)))
    inp0 = {"A": case["A"], "B": case["B"]}
    fails = []
    evals = 0

    def mk():
        return fsm.build(base.WFSA, Poly, A, WA), fsm.build(base.WFSA, Poly, B, WB)

    exprs = [
        ("A+B", lambda a, b: a + b, t_add(tA, tB)),
        ("A*B", lambda a, b: a * b, t_mul(tA, tB)),
        ("(A+B).star", lambda a, b: (a + b).star(), t_star(t_add(tA, tB))),
        ("(A*B).reverse", lambda a, b: (a * b).reverse, t_rev(t_mul(tA, tB))),
        ("A.star*B", lambda a, b: a.star() * b, t_mul(t_star(tA), tB)),
        ("A*B.kleene_plus", lambda a, b: a * b.kleene_plus(), t_mul(tA, t_plus(tB))),
    ]
    for name, f, want in exprs:
        res = _call(lambda: f(*mk()))
        have = table_of(res)
        evals += 1
        if have != clean(want):
            fails.append(_fail(f"{name} == defining sum", dict(inp0, expr=name), have, clean(want)))
    # state-naming configurations: names that look like the keys used internally to
    # rename operands apart ((0, q) / (1, q)), and operands sharing state names
    if len(A) + len(B) <= 7:
        namings = [
            ({q: (1, q) for q in range(3)}, None),
            (None, {q: (0, q) for q in range(3)}),
            ({q: (1, q) for q in range(3)}, {q: (0, q) for q in range(3)}),
            ({q: (0, (1, q)) for q in range(3)}, {q: (1, q) for q in range(3)}),
        ]
        for na, nb in namings:
            for name, f, want in exprs[:2]:
                res = _call(lambda: f(fsm.build(base.WFSA, Poly, A, WA, names=na), fsm.build(base.WFSA, Poly, B, WB, names=nb)))
                have = table_of(res)
                evals += 1
                if have != clean(want):
                    fails.append(_fail(f"{name} == defining sum (any state names)", dict(inp0, expr=name, namesA=short(na), namesB=short(nb)), have, clean(want)))
    # field WFSA with exact rational weights (Float.star(0) is a float, so compare numerically)
    if len(A) + len(B) <= 8:
        FA = [fsm.FRAC[i % 8] for i in range(len(A))]
        FB = [fsm.FRAC[(i + 3) % 8] for i in range(len(B))]
        try:
            mA = to_matrices(fsm.data(A, FA))
            mB = to_matrices(fsm.data(B, FB))
        except Diverges:
            mA = None
        if mA is not None:
            a = fsm.build(FieldWFSA, Float, A, FA)
            b = fsm.build(FieldWFSA, Float, B, FB)
            alphabet = sorted({o[2] for o in A + B if o[0] == "A" and o[2] != EPS})
            for name, m in (("A+B", _call(lambda: a + b)), ("A*B", _call(lambda: a * b)), ("(A*B).reverse", _call(lambda: (a * b).reverse))):
                for x in strings_upto(alphabet, 2):
                    if name == "A+B":
                        want = mat_weight(mA, x) + mat_weight(mB, x)
                    else:
                        y = tuple(reversed(x)) if name.endswith("reverse") else x
                        want = sum((mat_weight(mA, y[:k]) * mat_weight(mB, y[k:]) for k in range(len(y) + 1)), Fraction(0))
                    have = m if isinstance(m, str) else _call(m, x)
                    evals += 1
                    try:
                        ok = abs(float(have) - float(want)) <= 1e-9 * max(1.0, abs(float(want)))
                    except (TypeError, ValueError):
                        ok = False
                    if not ok:
                        fails.append(_fail(f"field WFSA {name} == defining sum", dict(inp0, expr=name, x=list(x)), have, want))
    return {"evals": evals, "nontrivial": int(bool(tA) and bool(tB)), "fails": fails, "counters": {"executions": evals}}


def run_ctor(case):
    fails = []
    evals = 0
    one = Poly.var(0)
    # lift
    for a in ("a", EPS):
        m = base.WFSA.lift(a, Poly.var(3))
        evals += 1
        want = {((a,) if a else ()): Poly.var(3)}
        if table_of(m) != want:
            fails.append(_fail("lift(x, w)", {"x": a}, table_of(m), want))
    z = base.WFSA(Poly)
    if table_of(z.zero) != {}:
        fails.append(_fail("zero", {}, table_of(z.zero), {}))
    if table_of(z.one) != {(): Poly.one}:
        fails.append(_fail("one", {}, table_of(z.one), {(): Poly.one}))
    strs = list(strings_upto(["a", "b"], 2))
    for x in strs:
        for w in (None, Poly.var(1)):
            for form in (x, "".join(x)):
                m = _call(lambda: base.WFSA.from_string(form, Poly, w=w))
                evals += 1
                want = {x: Poly.one if w is None else w}
                if table_of(m) != want:
                    fails.append(_fail("from_string(xs, w)", {"xs": form, "w": repr(w)}, table_of(m), want))
        mf = _call(lambda: FieldWFSA.from_string("".join(x), Float))
        have = mf if isinstance(mf, str) else _call(mf, "".join(x))
        evals += 1
        if have != 1:
            fails.append(_fail("field from_string(xs)(xs) == 1", {"xs": "".join(x)}, have, 1))
    # explicit numeric weights, INCLUDING the falsy ones (0, 0.0) and values outside [0, 1]
    for x in strs:
        for cls in (base.WFSA, FieldWFSA):
            for w in (0, 0.0, 0.5, 1.0, 2.0, -1.0):
                m = _call(lambda: cls.from_string("".join(x), Float, w=w))
                for y in strs:
                    have = m if isinstance(m, str) else _call(m, "".join(y))
                    evals += 1
                    want = w if y == x else 0
                    if isinstance(have, str) or have != want:
                        fails.append(_fail("from_string(xs, Float, w)(ys) == w if ys == xs else 0", {"class": cls.__name__, "xs": "".join(x), "w": repr(w), "ys": "".join(y)}, have, want))
                        break
    for w in (Poly.zero,):
        m = _call(lambda: base.WFSA.from_string("ab", Poly, w=w))
        evals += 1
        if table_of(m) != {}:
            fails.append(_fail("from_string(xs, zero) is the empty language", {"xs": "ab"}, table_of(m), {}))
        m = _call(lambda: base.WFSA.lift("a", w))
        evals += 1
        if table_of(m) != {}:
            fails.append(_fail("lift(x, zero) is the empty language", {"x": "a"}, table_of(m), {}))
    # non-commuting weights: evaluation by the machine's own __call__ keeps the factors in path order
    from vf.semirings import NCPoly

    for x in strs:
        for y in strs:
            u, v = NCPoly.var(1), NCPoly.var(2)

            def both():
                A = base.WFSA.from_string("".join(x), NCPoly, w=u)
                B = base.WFSA.from_string("".join(y), NCPoly, w=v)
                return A("".join(x)), (A * B)("".join(x + y)), (A + B)("".join(y))

            r = _call(both)
            evals += 1
            want = (u, u * v, (u + v) if x == y else v)
            if isinstance(r, str) or tuple(r) != want:
                fails.append(_fail("from_string / product / union evaluated by __call__ over a non-commutative semiring", {"xs": "".join(x), "ys": "".join(y)}, r, want))
    # results are NEW machines: editing a result never changes an operand, the empty machine or the shared
    # one / zero constants (operations with the empty machine and the constants are the identity cases)
    def lang3(m):
        return tuple(_call(m, x) for x in ("", "a", "x", "ax"))

    from genlm.grammar.semiring import Real

    for cls, mkempty, RR, half in ((base.WFSA, lambda: base.WFSA(Real), Real, Real(0.5)), (FieldWFSA, lambda: FieldWFSA(), Float, 0.5)):
        results = [
            ("zero+A", lambda A, Z: Z + A), ("A+zero", lambda A, Z: A + Z), ("one*A", lambda A, Z: cls.one * A if cls is FieldWFSA else Z.one * A),
            ("A*one", lambda A, Z: A * (cls.one if cls is FieldWFSA else Z.one)), ("empty.star()", lambda A, Z: Z.star()), ("A.star()", lambda A, Z: A.star()),
            ("empty+empty", lambda A, Z: Z + mkempty()), ("A.kleene_plus()", lambda A, Z: A.kleene_plus()),
        ]
        for rname, f in results:
            A = cls.from_string("a", RR, w=half)
            Z = mkempty()
            consts = (cls.one, cls.zero) if cls is FieldWFSA else ()
            U = _call(lambda: f(A, Z))
            evals += 1
            if isinstance(U, str):
                fails.append(_fail("identity cases of the rational operations: construct", {"class": cls.__name__, "expr": rname}, U, "automaton"))
                continue
            before = (lang3(A), lang3(Z), tuple(lang3(c) for c in consts))
            try:
                U.add_I("new", half)
                U.add_arc("new", "x", "new", half)
                U.add_F("new", half)
            except Exception as e:  # noqa: BLE001
                fails.append(_fail("the result of an operation can be edited", {"class": cls.__name__, "expr": rname}, f"EXC {type(e).__name__}: {e}", "ok"))
                continue
            after = (lang3(A), lang3(Z), tuple(lang3(c) for c in consts))
            if after != before:
                fails.append(_fail("editing the result of an operation leaves operands and the one/zero constants unchanged", {"class": cls.__name__, "expr": rname}, after, before))
    strs3 = strs + [("a", "b", "a"), ("a", "a", "b")]
    for k in (0, 1, 2, 3):
        # every ORDER of every set of strings (a member may be a proper prefix of an earlier or later one)
        for Xs in itertools.permutations(strs3 if k <= 2 else [x for x in strs3 if x[:1] == ("a",)], k):
            for form in (list(Xs), ["".join(x) for x in Xs]):
                m = _call(lambda: base.WFSA.from_strings(form, Poly))
                evals += 1
                want = {x: Poly.one for x in Xs}
                if table_of(m) != want:
                    fails.append(_fail("from_strings(Xs)", {"Xs": [list(x) for x in Xs]}, table_of(m), want))
    return {"evals": evals, "nontrivial": 1, "fails": fails, "counters": {"executions": evals}}


def run_case(case):
    return {"unary": run_unary, "binary": run_binary, "ctor": run_ctor}[case["mode"]](case)
