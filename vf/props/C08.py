"""C08 - total weights are the least solution of the grammar equations."""
from fractions import Fraction

from vf import gram, engine_sched as es
from vf.gram import case_rules, case_terms, short
from vf.ref_cfg import NoConvergence, enum_derivs, ref_totals, table_total
from vf.runner import CaseTimeout
from vf.semirings import Poly
from vf.spaces import strings_upto

from genlm.grammar.cfg import CFG
from genlm.grammar.chart import Chart
from genlm.grammar.semiring import Boolean, Float, MaxTimes, Real

ID = "C08"
LEVEL = "model_checking"
TIER = "quick"
FLOATW = [0.5, 1 / 3, 0.2, 1 / 7, 0.25, 0.3]
FRACW = [Fraction(1, 2), Fraction(1, 3), Fraction(1, 5), Fraction(1, 7), Fraction(1, 4), Fraction(3, 10)]


def cfgp():
    if TIER == "thorough":
        return dict(D=7, depth=3, sched_depth=3, sched_bound=3, extra=True)
    return dict(D=6, depth=3, sched_depth=2, sched_bound=2, extra=False)


class SchedChart(Chart):
    """Chart whose popitem() order is owned by the E2 scheduler (alternative 0 =
    dict.popitem's LIFO default)."""

    def popitem(self):
        keys = list(self.keys())[::-1]
        k = keys[es.choose(len(keys))]
        return k, self.pop(k)

    def spawn(self):
        return SchedChart(self.semiring)

    def copy(self):
        return SchedChart(self.semiring, self)


class SPoly(Poly):
    __slots__ = ()

    @classmethod
    def chart(cls, *a, **k):
        return SchedChart(cls, *a, **k)


def init_worker(tier):
    global TIER
    TIER = tier
    Poly.D = cfgp()["D"]


def plan(tier, seed):
    global TIER
    TIER = tier
    p = cfgp()
    base, nstates, ntrans = gram.grammar_cases(p["depth"])
    nstates_base, ntrans_base = gram.grammar_cases(p["depth"], with_sharp=False)[1:]
    cases = [dict(c, mode="free") for c in base]
    if p["extra"]:
        b3, s3, t3 = gram.grammar_cases(2, heads=("S", "A", "B"), with_sharp=False)
        b4, s4, t4 = gram.grammar_cases(2, heads=("S", "A"), maxbody=3, with_sharp=False)
        cases += [dict(c, mode="free") for c in b3 + b4]
        nstates += s3 + s4
        ntrans += t3 + t4
        # thorough: every grammar of exactly 4 rules (BFS depth 4), free weights only
        b5, s5, t5 = gram.grammar_cases(4, with_sharp=False)
        cases += [dict(c, mode="free") for c in b5 if len(c["rules"]) == 4]
        nstates += s5 - nstates_base
        ntrans += t5 - ntrans_base
    for k in range(len(CRITICAL)):
        cases.append({"name": "critical", "rules": [], "mode": "critical", "family": k})
    for c in base:
        cases.append(dict(c, mode="num"))
        if len(c["rules"]) <= p["sched_depth"] or c["name"].startswith("sharp"):
            cases.append(dict(c, mode="sched"))
    return {
        "cases": cases,
        "states": nstates,
        "transitions": ntrans,
        "chunk": 20,
        "rule": (
            f"E1: BFS over cfg.add(rule) sequences to depth {p['depth']} + sharp grammars (symbol repeated in a body, duplicate rules, several SCCs). free: indeterminate weights (Poly_D, D={p['D']}): "
            "agenda()[X] and naive_bottom_up()[X] for every nonterminal X = sum of the derivation enumerator's table from X; treesum = sum over the whole language. "
            "num: Boolean, MaxTimes(Fraction), Real(Fraction, finite languages exact), float (agenda, naive, expected_length) vs naive Kleene reference / closed-form pair arithmetic. "
            f"sched: E2 every popitem order of the pending-update charts with <= {p['sched_bound']} deviations (one distinct outcome required). "
            "non-trivial = the start symbol has non-zero total weight"
        ),
        "bounds": p,
        "assumptions": ["free-weight comparison is modulo degree > D", "float comparisons: rel 1e-6 + abs 1e-9 (library tolerance 1e-12 absolute per update)"],
    }


def _fail(pred, inp, obs, exp):
    return {"pred": pred, "input": inp, "observed": short(obs), "expected": short(exp)}


def _call(f, *a):
    try:
        return f(*a)
    except CaseTimeout:
        raise
    except Exception as e:  # noqa: BLE001
        return f"EXC {type(e).__name__}: {e}"


def nts_of(rules, V):
    n = []
    for h, b in rules:
        for y in (h,) + tuple(b):
            if y not in V and y not in n:
                n.append(y)
    if "S" not in n:
        n.append("S")
    return n


def run_free(case):
    r = _run_free(case, None)
    if len(case["rules"]) >= 2:
        r2 = _run_free(case, None, order=list(range(len(case["rules"])))[::-1])  # same grammar, rules added in reverse order
        r["evals"] += r2["evals"]
        r["fails"] += r2["fails"]
        r["counters"]["executions"] += r2["counters"]["executions"]
    var_of = gram.shared_vars(case_rules(case))
    if var_of is not None:
        r2 = _run_free(case, var_of)  # duplicate rules equal by value (same weight)
        r["evals"] += r2["evals"]
        r["fails"] += r2["fails"]
        r["counters"]["executions"] += r2["counters"]["executions"]
    return r


def _run_free(case, var_of, order=None):
    rules = case_rules(case)
    V = case_terms(case)
    NT = nts_of(rules, V)
    want = {X: table_total(enum_derivs(rules, X, V, Poly.D, var_of=var_of)) for X in NT}
    inp0 = {"rules": case["rules"]} if var_of is None else {"rules": case["rules"], "duplicates_share_weight": True}
    if order is not None:
        inp0["rule_order"] = "reversed"
    fails = []
    evals = 0
    g = gram.build(rules, Poly, gram.poly_weights(len(rules)) if var_of is None else [Poly.var(v) for v in var_of], V=V, order=order)
    for name, f in (("agenda", lambda: g.agenda()), ("naive_bottom_up", lambda: g.naive_bottom_up())):
        have = _call(f)
        evals += 1
        if isinstance(have, str):
            fails.append(_fail(f"{name}()[X] == total weight of X's derivations", dict(inp0), have, want))
            continue
        for X in NT:
            if not (isinstance(have[X], Poly) and have[X] == want[X]):
                fails.append(_fail(f"{name}()[X] == total weight of X's derivations", dict(inp0, X=X), have[X], want[X]))
    have = _call(g.treesum)
    evals += 1
    if not (isinstance(have, Poly) and have == want["S"]):
        fails.append(_fail("treesum == sum over the language", inp0, have, want["S"]))
    return {"evals": evals, "nontrivial": int(want["S"] != Poly.zero), "fails": fails, "counters": {"executions": evals}}


class ExpRef:
    """Hand-written expectation pair arithmetic (reference, independent of semiring.Expectation)."""

    __slots__ = ("p", "r")

    def __init__(self, p, r):
        self.p = p
        self.r = r

    def __add__(self, o):
        return ExpRef(self.p + o.p, self.r + o.r)

    def __mul__(self, o):
        return ExpRef(self.p * o.p, self.p * o.r + self.r * o.p)

    def __eq__(self, o):
        return self.p == o.p and self.r == o.r

    def metric(self, o):
        return max(abs(self.p - o.p), abs(self.r - o.r))


ExpRef.zero = ExpRef(0, 0)
ExpRef.one = ExpRef(1, 0)


class LogRef:
    """Hand-written log-space arithmetic (reference, independent of semiring.Log)."""

    __slots__ = ("s",)

    def __init__(self, s):
        self.s = s

    def __add__(self, o):
        import math

        a, b = self.s, o.s
        if a == float("-inf"):
            return LogRef(b)
        if b == float("-inf"):
            return LogRef(a)
        m = max(a, b)
        return LogRef(m + math.log(math.exp(a - m) + math.exp(b - m)))

    def __mul__(self, o):
        if self.s == float("-inf") or o.s == float("-inf"):
            return LogRef(float("-inf"))
        return LogRef(self.s + o.s)

    def __eq__(self, o):
        return self.s == o.s

    def metric(self, o):
        if self.s == o.s:
            return 0.0
        return abs(self.s - o.s)


LogRef.zero = LogRef(float("-inf"))
LogRef.one = LogRef(0.0)
LOGW = [-20.0, -0.5, -30.0, -1.0, -25.0, -2.0]  # incl. probabilities far below 1e-12


def finite_derivations(rules, V, everywhere=False):
    """Rule list (same indices, useless rules made unreachable) iff S has finitely
    many derivation trees, i.e. no recursion among useful rules; else None.
    everywhere=True: no recursion among productive rules of ANY nonterminal."""
    from vf.ref_cfg import productive, reachable

    P = productive(rules, V)
    useful = [(h, b) for h, b in rules if h in P and all(y in P for y in b)]
    if not everywhere:
        T = reachable(useful, "S")
        useful = [(h, b) for h, b in useful if h in T]
    edges = {}
    for h, b in useful:
        edges.setdefault(h, set()).update(y for y in b if y not in V)
    color = {}

    def dfs(x):
        color[x] = 1
        for y in edges.get(x, ()):
            if color.get(y) == 1:
                return True
            if y not in color and dfs(y):
                return True
        color[x] = 2
        return False

    if any(dfs(x) for x in list(edges) if x not in color):
        return None
    # same indices, useless rules made unreachable (their exploration would not terminate early)
    return [(h, b) if (h, b) in useful else (f"#dead{i}", ()) for i, (h, b) in enumerate(rules)]


def no_recursion(rules, V):
    """True iff the dependency graph of ALL rules (useful or not) is acyclic."""
    edges = {}
    for h, b in rules:
        edges.setdefault(h, set()).update(y for y in b if y not in V)
    color = {}

    def dfs(x):
        color[x] = 1
        for y in edges.get(x, ()):
            if color.get(y) == 1 or (y not in color and dfs(y)):
                return True
        color[x] = 2
        return False

    return not any(dfs(x) for x in list(edges) if x not in color)


def run_num(case):
    rules = case_rules(case)
    V = case_terms(case)
    NT = nts_of(rules, V)
    inp0 = {"rules": case["rules"]}
    fails = []
    evals = 0
    n = len(rules)
    nontriv = 0
    # Boolean: generating symbols
    gb = gram.build(rules, Boolean, [Boolean.one] * n, V=V)
    wantb = ref_totals([(Boolean.one, h, b) for h, b in rules], V, Boolean)
    have = _call(gb.agenda)
    evals += 1
    if isinstance(have, str) or any(have[X] != wantb.get(X, Boolean.zero) for X in NT):
        fails.append(_fail("Boolean agenda == generating set", inp0, have, wantb))
    # MaxTimes (exact rational scores): best derivation weight
    mw = [MaxTimes(FRACW[i % len(FRACW)]) for i in range(n)]
    gm = gram.build(rules, MaxTimes, mw, V=V)
    wantm = ref_totals([(w, h, b) for w, (h, b) in zip(mw, rules)], V, MaxTimes)
    for name, f in (("agenda", gm.agenda), ("naive_bottom_up", gm.naive_bottom_up)):
        have = _call(f)
        evals += 1
        if isinstance(have, str) or any(have[X] != wantm.get(X, MaxTimes.zero) for X in NT):
            fails.append(_fail(f"MaxTimes {name} == best derivation weight", inp0, have, wantm))
    # floats
    fw = [FLOATW[i % len(FLOATW)] for i in range(n)]
    frules = [(w, h, b) for w, (h, b) in zip(fw, rules)]
    try:
        wantf = ref_totals(frules, V, Float, tol=1e-16, maxit=5000)
        if any(v > 1e6 for v in wantf.values()):
            raise NoConvergence
    except (NoConvergence, OverflowError):
        return {"evals": evals, "nontrivial": 0, "fails": fails, "counters": {"executions": evals, "float_skipped_nonconvergent": 1}}
    nontriv = int(wantf.get("S", 0) > 0)
    gf = gram.build(rules, Float, fw, V=V)
    for name, f in (("agenda", gf.agenda), ("naive_bottom_up", gf.naive_bottom_up)):
        have = _call(f)
        evals += 1
        if isinstance(have, str) or any(not gram.fclose(have[X], wantf.get(X, 0.0)) for X in NT):
            fails.append(_fail(f"float {name} == least solution", inp0, have, wantf))
    # weights greater than one on recursion-free grammars (dyadic floats: exact arithmetic)
    if n and no_recursion(rules, V):
        BIGW = [3.0, 2.0, 1.5, 4.0, 0.75, 5.0]
        bw = [BIGW[i % 6] for i in range(n)]
        wantb2 = ref_totals([(w, h, b) for w, (h, b) in zip(bw, rules)], V, Float, tol=0, maxit=100)
        for order in (None, list(range(n))[::-1]):
            gb2 = gram.build(rules, Float, bw, V=V, order=order)
            for name, f in (("agenda", gb2.agenda), ("naive_bottom_up", gb2.naive_bottom_up)):
                have = _call(f)
                evals += 1
                if isinstance(have, str) or any(abs(have[X] - wantb2.get(X, 0.0)) > 1e-9 for X in NT):
                    fails.append(_fail(f"float {name} == least solution (weights > 1)", dict(inp0, rule_order="reversed" if order else "natural"), have, wantb2))
        el_want = ref_totals([(ExpRef(w, w * sum(1 for y in b if y in V)), h, b) for w, (h, b) in zip(bw, rules)], V, ExpRef, tol=0, maxit=100).get("S", ExpRef.zero).r
        have = _call(lambda: gram.build(rules, Float, bw, V=V).expected_length)
        evals += 1
        if isinstance(have, str) or abs(have - el_want) > 1e-9 * max(1.0, abs(el_want)):
            fails.append(_fail("expected_length == sum_x |x| w(x) (weights > 1)", inp0, have, el_want))
    if n and no_recursion(rules, V):
        # tiny dyadic weights (totals ~1e-20) with a caller-chosen tolerance of 0: the tolerance is absolute,
        # so the default 1e-12 would legitimately discard them - tol=0 must not
        TINY = [2.0**-34, 2.0**-33, 2.0**-35, 2.0**-34, 2.0**-36, 2.0**-33]
        tw = [TINY[i % 6] for i in range(n)]
        wantt = ref_totals([(w, h, b) for w, (h, b) in zip(tw, rules)], V, Float, tol=0, maxit=100)
        gt = gram.build(rules, Float, tw, V=V)
        for name, f in (("agenda", lambda: gt.agenda(tol=0)), ("naive_bottom_up", lambda: gt.naive_bottom_up(tol=0))):
            have = _call(f)
            evals += 1
            if isinstance(have, str) or any(abs(have[X] - wantt.get(X, 0.0)) > 1e-9 * abs(wantt.get(X, 0.0)) for X in NT):
                fails.append(_fail(f"float {name}(tol=0) == least solution (tiny weights)", inp0, have, wantt))
        # weights among which some nonterminals are EXACTLY normalised (total weight 1.0): expected length
        ONEW = [1.0, 0.5, 0.5, 1.0, 0.25, 0.75]
        ow = [ONEW[i % 6] for i in range(n)]
        el_want = ref_totals([(ExpRef(w, w * sum(1 for y in b if y in V)), h, b) for w, (h, b) in zip(ow, rules)], V, ExpRef, tol=0, maxit=100).get("S", ExpRef.zero).r
        have = _call(lambda: gram.build(rules, Float, ow, V=V).expected_length)
        evals += 1
        if isinstance(have, str) or abs(have - el_want) > 1e-9 * max(1.0, abs(el_want)):
            fails.append(_fail("expected_length == sum_x |x| w(x) (weights 1, 1/2, 1/4, 3/4)", inp0, have, el_want))
    # Log semiring with very small probabilities (log-weights around -20 .. -30)
    from genlm.grammar.semiring import Log

    lw = [LOGW[i % len(LOGW)] for i in range(n)]
    try:
        wantl = ref_totals([(LogRef(w), h, b) for w, (h, b) in zip(lw, rules)], V, LogRef, tol=1e-13, maxit=400)
        if any(v.s > 10 for v in wantl.values()):
            wantl = None  # (near-)divergent weighting: outside "finite total weights"
    except (NoConvergence, OverflowError):
        wantl = None
    if wantl is not None:
        gl = gram.build(rules, Log, [Log(w) for w in lw], V=V)
        from vf.ref_cfg import productive

        Pset = productive(rules, V)
        all_productive = all(X in Pset for X in NT)
        for name, f in (("agenda", gl.agenda), ("naive_bottom_up", gl.naive_bottom_up)):
            have = _call(f)
            evals += 1
            bad = isinstance(have, str)
            if not bad:
                for X in NT:
                    hs = have[X].score
                    ws = wantl[X].s if X in wantl else float("-inf")
                    if not (hs == ws or abs(hs - ws) <= 1e-9):
                        bad = True
            if bad:
                fails.append(_fail(f"Log {name} == least solution (small probabilities)", inp0, have, {k: v.s for k, v in wantl.items()}))
    # expected length: weight-weighted total string length
    erules = [(ExpRef(w, w * sum(1 for y in b if y in V)), h, b) for w, (h, b) in zip(fw, rules)]
    try:
        wante = ref_totals(erules, V, ExpRef, tol=1e-16, maxit=5000).get("S", ExpRef.zero).r
    except (NoConvergence, OverflowError):
        wante = None
    if wante is not None and wante < 1e6:
        have = _call(lambda: gf.expected_length)
        evals += 1
        if not gram.fclose(have, wante):
            fails.append(_fail("expected_length == sum_x |x| w(x)", inp0, have, wante))
        # closed form on finite languages: sum over the enumerated table (exact in Fractions)
        urules = finite_derivations(rules, V)
        if urules is not None:
            table = enum_derivs(urules, "S", V, 40)
            exact = Fraction(0)
            for y, poly in table.items():
                for mono, c in poly.t.items():
                    w = Fraction(c)
                    for i in mono:
                        w *= FRACW[i % len(FRACW)]
                    exact += w * len(y)
            evals += 1
            if not gram.fclose(have, float(exact)):
                fails.append(_fail("expected_length == exact sum on a finite language", inp0, have, float(exact)))
    return {"evals": evals, "nontrivial": nontriv, "fails": fails, "counters": {"executions": evals}}


class SLog:
    """The shipped Log semiring with a scheduler-controlled chart (values are genlm Log objects)."""

    from genlm.grammar.semiring import Log as _L

    zero = _L.zero
    one = _L.one

    @staticmethod
    def metric(a, b):
        return a.metric(b)

    @classmethod
    def chart(cls, *a, **k):
        return SchedChart(cls, *a, **k)


def run_sched(case):
    p = cfgp()
    rules = case_rules(case)
    V = case_terms(case)
    NT = nts_of(rules, V)
    want = {X: table_total(enum_derivs(rules, X, V, Poly.D)) for X in NT}
    inp0 = {"rules": case["rules"]}
    fails = []
    extra_exec = 0
    # the same exploration over the shipped Log semiring (zero = -inf): every pop order must give the least solution
    from genlm.grammar.semiring import Log

    lw = [LOGW[i % len(LOGW)] for i in range(len(rules))]
    try:
        wantl = ref_totals([(LogRef(w), h, b) for w, (h, b) in zip(lw, rules)], V, LogRef, tol=1e-13, maxit=400)
        if any(v.s > 10 for v in wantl.values()):
            wantl = None
    except (NoConvergence, OverflowError):
        wantl = None
    # ... and over MaxPlus (zero = -inf as well) and MaxTimes, with exact scores
    from genlm.grammar.semiring import MaxPlus, MaxTimes

    for RR, mk_w, wname in ((MaxPlus, lambda i: MaxPlus(Fraction(-(i % 4) - 1, 2)), "MaxPlus"), (MaxTimes, lambda i: MaxTimes(FRACW[i % len(FRACW)]), "MaxTimes")):
        ww = [mk_w(i) for i in range(len(rules))]
        try:
            wantm = ref_totals([(w, h, b) for w, (h, b) in zip(ww, rules)], V, RR, maxit=200)
        except (NoConvergence, OverflowError):
            continue

        class SR:  # the shipped semiring with a scheduler-controlled chart
            zero = RR.zero
            one = RR.one

            @staticmethod
            def metric(a, b):
                return a.metric(b)

            @classmethod
            def chart(cls, *a, **k):
                return SchedChart(cls, *a, **k)

        def run_m():
            g = gram.build(rules, SR, ww, V=V)
            r = _call(lambda: g.agenda(maxiter=2000))
            if isinstance(r, str):
                return r
            bad = [(X, repr(r[X])) for X in NT if r[X] != wantm.get(X, RR.zero)]
            return "ok" if not bad else repr(bad)

        resm = es.explore(run_m, p["sched_bound"], max_exec=400)
        extra_exec += resm["executions"]
        badm = [(o, pf) for o, pf in resm["outcomes"].items() if o != "ok"]
        if badm:
            o, pf = badm[0]
            fails.append(_fail(f"{wname} agenda result independent of pop order", dict(inp0, schedule=pf[0]), o, wantm))
    if wantl is not None:

        def run_log():
            g = gram.build(rules, SLog, [Log(w) for w in lw], V=V)
            g.R = SLog
            r = _call(lambda: g.agenda(maxiter=2000))
            if isinstance(r, str):
                return r
            bad = []
            for X in NT:
                hs = r[X].score
                ws = wantl[X].s if X in wantl else float("-inf")
                if not (hs == ws or abs(hs - ws) <= 1e-9):
                    bad.append((X, hs, ws))
            return "ok" if not bad else repr(bad)

        resl = es.explore(run_log, p["sched_bound"], max_exec=600)
        extra_exec += resl["executions"]
        badl = [(o, pf) for o, pf in resl["outcomes"].items() if o != "ok"]
        if badl:
            o, pf = badl[0]
            fails.append(_fail("Log agenda result independent of pop order", dict(inp0, schedule=pf[0]), o, {k: v.s for k, v in wantl.items()}))

    def run():
        g = gram.build(rules, SPoly, gram.poly_weights(len(rules)), V=V)
        r = _call(g.agenda)
        if isinstance(r, str):
            return r
        bad = [(X, repr(r[X])) for X in NT if r[X] != want[X]]
        return "ok" if not bad else repr(bad)

    res = es.explore(run, p["sched_bound"], max_exec=4000)
    bad = [(o, pf) for o, pf in res["outcomes"].items() if o != "ok"]
    if bad:
        o, pf = bad[0]
        # determinism of the replay before reporting
        again, _ = es.replay(run, pf[0])
        fails.append(_fail("agenda result independent of pop order", dict(inp0, schedule=pf[0]), o if again == o else f"NONDETERMINISTIC REPLAY {o} vs {again}", want))
    return {
        "evals": 1,
        "nontrivial": int(want["S"] != Poly.zero),
        "fails": fails,
        "counters": {"executions": res["executions"] + extra_exec, "sched_executions": res["executions"] + extra_exec, "max_sched_choice_points": res["choice_points"], "max_sched_branch": res["max_branch"], "sched_capped": int(res["capped"]), "sched_distinct_outcomes": len(res["outcomes"])},
    }


# Grammars at the boundary of convergence (closed-form totals): the fixed point of X = p X^2 + (1-p) at p = 1/2 is 1
# and is approached like 1/n, so the evaluators run into their iteration cap in the block of X and must still
# evaluate the blocks that depend on it.
CRITICAL = [
    ([(0.5, "X", ("X", "X")), (0.5, "X", ("a",)), (1.0, "S", ("X", "c"))], {"X": 1.0, "S": 1.0}),
    ([(0.5, "X", ("X", "X")), (0.5, "X", ("a",)), (0.5, "Y", ("Y", "Y")), (0.5, "Y", ("b",)), (1.0, "S", ("X", "Y")), (0.25, "T", ("S", "c"))], {"X": 1.0, "Y": 1.0, "S": 1.0, "T": 0.25}),
    ([(0.5, "S", ("S", "S")), (0.5, "S", ("a",))], {"S": 1.0}),
]


def run_critical(case):
    from genlm.grammar.cfglm import locally_normalize

    wr, want = CRITICAL[case["family"]]
    V = {"a", "b", "c"}
    fails = []
    evals = 0
    inp0 = {"critical_family": case["family"], "rules": [[w, h, list(b)] for w, h, b in wr]}

    def mk():
        g = CFG(Float, "S", set(V))
        for w, h, b in wr:
            g.add(w, h, *b)
        return g

    for name, f in (("agenda", lambda: mk().agenda()), ("naive_bottom_up", lambda: mk().naive_bottom_up())):
        have = _call(f)
        evals += 1
        if isinstance(have, str) or any(abs(have[X] - v) > 2e-2 for X, v in want.items()):
            fails.append(_fail(f"{name} on a grammar at the boundary of convergence (closed form, 2e-2)", inp0, have if isinstance(have, str) else {X: have[X] for X in want}, want))
    ln = _call(lambda: locally_normalize(mk()))
    evals += 1
    if isinstance(ln, str):
        fails.append(_fail("locally_normalize on a grammar at the boundary of convergence", inp0, ln, "grammar"))
    else:
        heads = {}
        for r in ln.rules:
            heads[r.head] = heads.get(r.head, 0) + r.w
        if set(heads) != set(want) or any(abs(s - 1) > 5e-2 for s in heads.values()):
            fails.append(_fail("locally_normalize: every head keeps its rules and sums to one (5e-2)", inp0, heads, {X: 1.0 for X in want}))
    return {"evals": evals, "nontrivial": 1, "fails": fails, "counters": {"executions": evals}}


def run_case(case):
    return {"free": run_free, "num": run_num, "sched": run_sched, "critical": run_critical}[case["mode"]](case)
