"""C18 - regex automata accept exactly the regex language and are locally normalised."""
import itertools
import re
import warnings

from vf.gram import short
from vf.ref_fsa import machine_data
from vf.runner import CaseTimeout

from genlm.grammar.lark_interface import interegular_to_wfsa

ID = "C18"
LEVEL = "model_checking"
TIER = "quick"

ATOMS = ["a", "b", ".", "[ab]", "[^a]", r"\d", r"\w", r"\.", "(?i:a)", "(?i:ß)", r"[^\d]", "[b-c]", r"\s"]
MULTI_UPPER = "ßŉǰﬁﬂﬀﬃﬄﬅﬆ"
CHARSETS = {
    "abc": ["a", "b", "c"],
    "mixed": ["a", "b", "A", "B", "1", "_", "\n", ".", "$"],
    "sharp-s": ["ß", "s", "S", "a"],
    # ten characters whose upper-case form has several characters (interegular lists the multi-character image and the
    # character in ONE transition class, in set-iteration order); only used for the patterns that mention them
    "multi-upper": list(MULTI_UPPER) + ["a"],
}
NON_ASCII_UNSAFE = (r"\w", r"\d", r"\s")  # their non-ASCII behaviour is not part of the supported subset


def cfgp():
    if TIER == "thorough":
        return dict(depth=3, strlen={"abc": 4, "mixed": 3, "sharp-s": 4, "multi-upper": 2})
    return dict(depth=2, strlen={"abc": 3, "mixed": 2, "sharp-s": 3, "multi-upper": 2})


def init_worker(tier):
    global TIER
    TIER = tier
    warnings.simplefilter("ignore")


def grp(p):
    return p if len(p) == 1 or (p.startswith("[") and p.endswith("]") and p.count("[") == 1) or (p.startswith("\\") and len(p) == 2) or (p.startswith("(?") and p.endswith(")") and balanced_single(p)) else f"(?:{p})"


def balanced_single(p):
    d = 0
    for i, ch in enumerate(p):
        if ch == "(":
            d += 1
        elif ch == ")":
            d -= 1
            if d == 0 and i != len(p) - 1:
                return False
    return d == 0


def unary(p):
    g = grp(p)
    return [g + "*", g + "+", g + "?", g + "{1,2}", g + "{2}", g + "{0,1}"]


def binary(p, q):
    return [grp(p) + grp(q), f"{p}|{q}"]


def patterns(depth):
    """BFS over regex constructors: level k+1 applies one operator to level <= k expressions."""
    levels = [list(ATOMS)]
    seen = set(ATOMS)
    transitions = 0
    small = ["a", "b", "[^a]", "(?i:ß)", "."]
    for d in range(1, depth + 1):
        prev = levels[-1]
        allprev = [p for lv in levels for p in lv]
        new = []
        cands = []
        for p in prev:
            cands += unary(p)
        if d == 1:
            for p in ATOMS:
                for q in ATOMS:
                    cands += binary(p, q)
        else:
            for p in prev:
                for q in small:
                    cands += binary(p, q) + binary(q, p)
        for c in cands:
            transitions += 1
            if c not in seen:
                seen.add(c)
                new.append(c)
        levels.append(new)
    sharp = [
        "", "(?:)", "a|", "[^ab]", r"[\d_]+", r"(?:a|b)*c",
        # loops that re-enter an earlier non-final state; several symbol classes into one successor
        "(?:ab)*ac", "(?:a|b)*abb", "b(?:ab)*ac", "(?:a[^b])*ac", "a(?:ba)*c", "(?:ab|ac)*a", "(?:a(?:bc)*)*b", "(?:ab)*(?:ac)*b", "(?:aa|b)*ab",
        "[a-c][a-c1]*", "[^a]b", "[ab][bc]", "(?:a|[^a])b", "[^a][^b][^c]", ".[^a]", "(?:a|b|c)(?:a|b)", "a{2,3}b", "(?:ab){2}c?", "(?:a|ab)(?:c|bcd)?",
    ]
    # classes that match NOTHING (always, or relative to a character set): the compiled machine has dead
    # states / states without usable fan-out; every shape x dead atom x position
    for dead in (r"[^\w\W]", "[^abc]", r"[^\s\S]"):
        for shape in ("{D}", "a{D}", "{D}a", "a|{D}", "{D}|a", "a{D}|b", "b|a{D}", "a{D}|bc", "{D}b|ac", "(?:{D}|a)b", "{D}*a", "a{D}?b", "(?:a{D})*b", "a(?:b|{D})c", "(?:a|b{D})*c", "{D}+|ab", "ab|b{D}a|ba"):
            sharp.append(shape.replace("{D}", dead))
    sharp += ["(?i:" + "|".join(MULTI_UPPER) + ")a", "(?i:" + MULTI_UPPER[:5] + ")|a", "a(?i:[" + MULTI_UPPER + "])", "(?i:" + "|".join(MULTI_UPPER[5:]) + ")*a(?i:ŉ)"]
    # escaped metacharacters as the FIRST / LAST character of a pattern
    sharp += [r"a\$", r"[ab]+\$", r"[^a]\$", r"\$", r"\$a", r"\^a", r"a\^", r"(?:a|\$)b", r"a\.", r"a\\"[:-1] + "|b", r"a\*", r"\+a", r"a\?", r"\(a\)", r"a\|"]
    return [p for lv in levels for p in lv], sharp, transitions


def plan(tier, seed):
    global TIER
    TIER = tier
    p = cfgp()
    pats, sharp, tr = patterns(p["depth"])
    cases = []
    for i in range(0, len(pats), 8):
        cases.append({"patterns": pats[i : i + 8]})
    for i in range(0, len(sharp), 3):
        cases.append({"patterns": sharp[i : i + 3], "extra_len": 2})  # sharp patterns: strings two characters longer
    pats = pats + sharp
    return {
        "cases": cases,
        "states": len(pats),
        "transitions": tr,
        "chunk": 4,
        "samples": [{"pattern": pats[k]} for k in (0, 20, len(pats) // 2, len(pats) - 7)],
        "rule": (
            f"E1: BFS over regex constructors from the atoms {ATOMS}: one operator application per step (* + ? {{1,2}} {{2}} {{0,1}}, concatenation, alternation) to depth {p['depth']} "
            f"(binary operators at depth >= 2 pair with {{a, b, [^a], (?i:ß), .}}); each pattern x character sets {list(CHARSETS)} x every string over the character set up to length {p['strlen']}: "
            "non-zero weight <=> re.fullmatch (ASCII flag; negated classes and the dot relative to the character set; dot excludes newline); every state with an outgoing arc or final weight has arc weights + final weight == 1 (1e-12); "
            "string weights sum to <= 1. non-trivial = the pattern matches at least one and rejects at least one enumerated string"
        ),
        "bounds": p,
        "assumptions": [r"\w \d \s are only exercised on ASCII character sets", "oracle = Python re with re.ASCII on the syntax subset whose semantics coincide with interegular"],
    }


def _fail(pred, inp, obs, exp):
    return {"pred": pred, "input": inp, "observed": short(obs), "expected": short(exp)}


def weight(data, s):
    start, stop, arcs = data
    cur = dict(start)
    idx = {}
    for i, a, j, w in arcs:
        idx.setdefault((i, a), []).append((j, w))
    for ch in s:
        nxt = {}
        for q, w in cur.items():
            for j, wj in idx.get((q, ch), ()):
                nxt[j] = nxt.get(j, 0.0) + w * wj
        cur = nxt
        if not cur:
            return 0.0
    return sum(w * stop.get(q, 0.0) for q, w in cur.items())


def run_case(case):
    p = cfgp()
    fails = []
    evals = 0
    nontriv = 0
    # one character-set object per name is REUSED across the patterns of this case (a
    # multi-step history): a builder that modifies or remembers its argument shows up here
    shared = {cname: set(cs) for cname, cs in CHARSETS.items()}
    for pat in case["patterns"]:
        try:
            rx = re.compile(pat, re.ASCII)
        except re.error:
            continue
        for cname, cs in CHARSETS.items():
            if cname == "sharp-s" and any(x in pat for x in NON_ASCII_UNSAFE):
                continue
            if (cname == "multi-upper") != ("ŉ" in pat):
                continue
            inp0 = {"pattern": pat, "charset": cname}
            try:
                m = interegular_to_wfsa(pat, charset=shared[cname])
                if shared[cname] != set(cs):
                    fails.append(_fail("building an automaton leaves the caller's character set unchanged", dict(inp0, earlier_patterns=case["patterns"][: case["patterns"].index(pat)]), sorted(shared[cname]), sorted(cs)))
                    shared[cname] = set(cs)
            except CaseTimeout:
                raise
            except Exception as e:  # noqa: BLE001
                fails.append(_fail("regex automaton: construct", inp0, f"EXC {type(e).__name__}: {e}", "automaton"))
                continue
            data = machine_data(m)
            start, stop, arcs = data
            # local normalisation
            mass = {}
            for i, a, j, w in arcs:
                mass[i] = mass.get(i, 0.0) + w
            for q, w in stop.items():
                mass[q] = mass.get(q, 0.0) + w
            for q, v in mass.items():
                evals += 1
                if abs(v - 1.0) > 1e-12:
                    fails.append(_fail("arc weights + final weight sum to one at every state", dict(inp0, state=repr(q)), v, 1.0))
                    break
            bad_labels = [a for _, a, _, _ in arcs if not (isinstance(a, str) and len(a) == 1)]
            if bad_labels:
                fails.append(_fail("every arc is labelled by a single character", inp0, bad_labels[:3], "single characters"))
            total = 0.0
            nm = nr = 0
            for n in range(p["strlen"][cname] + (case.get("extra_len", 0) if cname != "mixed" else 0) + 1):
                for tup in itertools.product(cs, repeat=n):
                    s = "".join(tup)
                    w = weight(data, s)
                    want = rx.fullmatch(s) is not None
                    evals += 1
                    total += w
                    nm += want
                    nr += not want
                    if (w > 0) != want:
                        fails.append(_fail("non-zero weight <=> the expression fully matches the string", dict(inp0, string=s), w, want))
            if total > 1 + 1e-9:
                fails.append(_fail("string weights form a sub-probability distribution", inp0, total, "<= 1"))
            nontriv += int(nm > 0 and nr > 0)
    return {"evals": evals, "nontrivial": nontriv, "fails": fails, "counters": {"executions": evals}}


def _literal_in(pat, ch):
    return ch in pat or ch.lower() in pat or ch.upper() in pat
