"""C16 - shipped weight types obey the closed-semiring laws (all triples of a value alphabet)."""
import itertools
import math
from fractions import Fraction as F

from vf.gram import short
from vf.runner import CaseTimeout

from genlm.grammar.semiring import Boolean, Entropy, Expectation, Float, Log, MaxPlus, MaxTimes, Real

ID = "C16"
LEVEL = "model_checking"
TIER = "quick"
INF = float("inf")


def cfgp():
    return dict(extra=(TIER == "thorough"))


def init_worker(tier):
    global TIER
    TIER = tier


def alphabets():
    ex = cfgp()["extra"]
    A = {}
    A["Boolean"] = (Boolean, [Boolean.zero, Boolean.one, Boolean(True), Boolean(False), Boolean(1), Boolean(0), Boolean("x")], "exact")
    reals = [F(0), F(1), F(1, 2), F(-1, 3), F(2), F(3, 4), F(-5, 2)] + ([F(7, 5), F(1, 9), F(-1), F(10), F(1, 1000)] if ex else [])
    A["Real"] = (Real, [Real.zero, Real.one] + [Real(x) for x in reals], "exact")
    A["Real-float"] = (Real, [Real.zero, Real.one] + [Real(float(x)) for x in reals], "float")
    A["Float"] = (Float, [Float.zero, Float.one] + reals, "exact")
    A["Float-float"] = (Float, [Float.zero, Float.one] + [float(x) for x in reals], "float")
    mp = [F(0), F(-1, 2), F(3), F(-7, 3), F(1, 4), F(-10)] + ([F(5, 2), F(-1, 1000), F(100)] if ex else [])
    A["MaxPlus"] = (MaxPlus, [MaxPlus.zero, MaxPlus.one, MaxPlus(-INF), MaxPlus(0)] + [MaxPlus(x) for x in mp], "exact")
    A["MaxPlus-float"] = (MaxPlus, [MaxPlus.zero, MaxPlus.one] + [MaxPlus(float(x)) for x in mp], "float")
    mt = [F(0), F(1), F(1, 2), F(1, 3), F(2), F(3, 4), F(5, 2)] + ([F(1, 1000), F(100), F(9, 10)] if ex else [])
    A["MaxTimes"] = (MaxTimes, [MaxTimes.zero, MaxTimes.one] + [MaxTimes(x) for x in mt], "exact")
    A["MaxTimes-float"] = (MaxTimes, [MaxTimes.zero, MaxTimes.one] + [MaxTimes(float(x)) for x in mt], "float")
    # incl. pairs whose gap exceeds the range of exp() (709.78): log-sum-exp must pivot on the larger one
    lg = [math.log(0.5), math.log(0.25), math.log(0.75), math.log(0.9), math.log(2.0), -3.2, 0.0, -INF, 1.5, -800.0, 760.0] + ([-30.0, math.log(0.999), 4.0, -1e5] if ex else [])
    # a ladder of small scores: next to `one` the gap sweeps every magnitude from e^-2.5 down to below double
    # precision (e^-35), so a shortcut that drops the smaller term too early (any threshold up to ~27 nats) shows
    # in star(x) == one + x*star(x) and in associativity
    lg += [-2.5 * k for k in range(1, 15)]
    A["Log"] = (Log, [Log.zero, Log.one] + [Log(x) for x in lg], "float")
    pairs = [(F(0), F(0)), (F(1), F(0)), (F(1, 2), F(-1, 2)), (F(1, 4), F(1, 3)), (F(2), F(1)), (F(3, 4), F(0)), (F(1, 3), F(-2)), (F(0), F(1)), (F(-1, 2), F(2)), (F(1), F(1))] + ([(F(9, 10), F(1, 10)), (F(0), F(-3)), (F(5), F(-3))] if ex else [])
    A["Entropy"] = (Entropy, [Entropy.zero, Entropy.one] + [Entropy(p, r) for p, r in pairs], "exact")
    A["Entropy-float"] = (Entropy, [Entropy.zero, Entropy.one, Entropy(0.0, 0.0), Entropy(1.0, 0.0)] + [Entropy(float(p), float(r)) for p, r in pairs[2:]], "float")
    A["Expectation"] = (Expectation, [Expectation.zero, Expectation.one] + [Expectation(p, r) for p, r in pairs], "exact")
    A["Expectation-float"] = (Expectation, [Expectation.zero, Expectation.one] + [Expectation(float(p), float(r)) for p, r in pairs], "float")
    return A


def plan(tier, seed):
    global TIER
    TIER = tier
    A = alphabets()
    cases = []
    ntr = 0
    for name, (R, vals, mode) in A.items():
        for i in range(len(vals)):
            cases.append({"type": name, "first": i})
        ntr += len(vals) ** 3
    return {
        "cases": cases,
        "states": sum(len(v[1]) for v in A.values()),
        "transitions": ntr,
        "chunk": 4,
        "rule": (
            "for each shipped weight type a value alphabet of " + ", ".join(f"{k}:{len(v[1])}" for k, v in A.items()) + " values (the zero and one constants, freshly constructed equal copies, exact Fraction scores where the type allows, "
            "floats otherwise); ALL triples (a,b,c): + associative/commutative with zero as identity, * associative with one as identity, left and right distributivity, zero annihilates, * commutative; "
            "star(x) == one + x*star(x) == one + star(x)*x for every value where the geometric series converges (|x|<1; score<=0 MaxPlus; <=1 MaxTimes; p<1 pairs; score<0 Log). "
            "Exact alphabets are compared exactly, float alphabets to 1e-12 relative. non-trivial = the triple contains no zero/one constant"
        ),
        "bounds": {"extra": cfgp()["extra"]},
        "assumptions": ["value domain per type: non-negative scores for MaxTimes, probabilities/real pairs for Entropy/Expectation"],
    }


def sc(v):
    return v.score if hasattr(v, "score") else v


def feq(x, y, exact):
    if isinstance(x, tuple) or isinstance(y, tuple):
        if not (isinstance(x, tuple) and isinstance(y, tuple) and len(x) == len(y)):
            return False
        return all(feq(a, b, exact) for a, b in zip(x, y))
    if isinstance(x, bool) or isinstance(y, bool):
        return x == y
    ex_types = (int, F)
    if isinstance(x, ex_types) and isinstance(y, ex_types):
        return x == y
    try:
        fx, fy = float(x), float(y)
    except (TypeError, ValueError):
        return False
    if fx == fy:
        return True
    if math.isinf(fx) or math.isinf(fy) or math.isnan(fx) or math.isnan(fy):
        return False
    tol = 1e-12 if not exact else 1e-12
    return abs(fx - fy) <= tol * max(1.0, abs(fx), abs(fy))


def star_defined(name, v):
    s = sc(v)
    t = name.split("-")[0]
    if t == "Boolean":
        return True
    if t in ("Real", "Float"):
        return abs(s) < 1
    if t == "MaxPlus":
        return s <= 0
    if t == "MaxTimes":
        return 0 <= s <= 1
    if t == "Log":
        return s < 0
    return abs(s[0]) < 1


def star_of(R, v):
    if R is Float:
        return Float.star(v)
    return v.star()


def run_case(case):
    A = alphabets()
    name = case["type"]
    R, vals, mode = A[name]
    exact = mode == "exact"
    a = vals[case["first"]]
    fails = []
    evals = 0
    nontriv = 0
    zero, one = R.zero, R.one

    def chk(law, lhs, rhs, inp):
        nonlocal evals
        evals += 1
        try:
            l = lhs()
            r = rhs()
            ok = feq(sc(l), sc(r), exact)
        except CaseTimeout:
            raise
        except Exception as e:  # noqa: BLE001
            l, r, ok = f"EXC {type(e).__name__}: {e}", "", False
        if not ok:
            fails.append({"pred": f"{name.split('-')[0]}: {law}", "input": dict(inp, type=name), "observed": short(l), "expected": short(r)})

    ia = case["first"]
    ra = repr(a)
    chk("a + zero == a", lambda: a + zero, lambda: a, {"a": ra})
    chk("zero + a == a", lambda: zero + a, lambda: a, {"a": ra})
    chk("a * one == a", lambda: a * one, lambda: a, {"a": ra})
    chk("one * a == a", lambda: one * a, lambda: a, {"a": ra})
    chk("a * zero == zero", lambda: a * zero, lambda: zero, {"a": ra})
    chk("zero * a == zero", lambda: zero * a, lambda: zero, {"a": ra})
    if star_defined(name, a):
        chk("star(a) == one + a*star(a)", lambda: star_of(R, a), lambda: one + a * star_of(R, a), {"a": ra})
        chk("star(a) == one + star(a)*a", lambda: star_of(R, a), lambda: one + star_of(R, a) * a, {"a": ra})
    for ib, b in enumerate(vals):
        rb = repr(b)
        chk("a + b == b + a", lambda: a + b, lambda: b + a, {"a": ra, "b": rb})
        chk("a * b == b * a", lambda: a * b, lambda: b * a, {"a": ra, "b": rb})
        for ic, c in enumerate(vals):
            rc = repr(c)
            inp = {"a": ra, "b": rb, "c": rc}
            if all(v is not zero and v is not one for v in (a, b, c)):
                nontriv += 1
            chk("(a + b) + c == a + (b + c)", lambda: (a + b) + c, lambda: a + (b + c), inp)
            chk("(a * b) * c == a * (b * c)", lambda: (a * b) * c, lambda: a * (b * c), inp)
            chk("a * (b + c) == a*b + a*c", lambda: a * (b + c), lambda: a * b + a * c, inp)
            chk("(a + b) * c == a*c + b*c", lambda: (a + b) * c, lambda: a * c + b * c, inp)
    return {"evals": evals, "nontrivial": nontriv, "fails": fails, "counters": {"executions": evals, "triples": len(vals) ** 2}}
