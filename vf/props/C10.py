"""C10 - transducer composition counts every matching path pair exactly once."""
import itertools

from vf import fsm
from vf.gram import short
from vf.ref_fsa import Diverges, fst_weight, machine_data, paths
from vf.runner import CaseTimeout
from vf.semirings import Poly
from vf.spaces import bfs_machines, strings_upto

from genlm.grammar.fst import FST
from genlm.grammar.semiring import Boolean, Float
from genlm.grammar.wfsa import base

ID = "C10"
LEVEL = "model_checking"
CASE_HARD_TIMEOUT = 900  # thorough-tier interleaved histories take ~1-2 min per pool on a loaded machine
TIER = "quick"
EPS = ""
LABELS = [("a", "a"), ("a", "b"), ("b", "a"), ("a", EPS), (EPS, "a"), (EPS, EPS)]


def cfgp():
    if TIER == "thorough":
        return dict(D=6, one_arcs=3, two_arcs=2, pair22=True, strlen=2)
    return dict(D=5, one_arcs=2, two_arcs=2, pair22=False, strlen=2)


def init_worker(tier):
    global TIER
    TIER = tier
    Poly.D = cfgp()["D"]


def machines(ns, ma):
    ms, tr = bfs_machines(ns, LABELS, ma)
    keep = [o for o in ms if any(x[0] == "I" for x in o) and any(x[0] == "F" for x in o)]
    return keep, len(ms), tr


def plan(tier, seed):
    global TIER
    TIER = tier
    p = cfgp()
    m1, s1, t1 = machines(1, p["one_arcs"])
    m2, s2, t2 = machines(2, p["two_arcs"])
    cases = []

    def eps(o):
        return any(x[0] == "A" and EPS in x[2] for x in o)

    for a in m1:
        for b in m1:
            cases.append({"mode": "pair", "F": fsm.ops_json(a), "G": fsm.ops_json(b)})
    for a in m1:
        narcs = sum(1 for x in a if x[0] == "A")
        for b in m2:
            if tier != "thorough" and narcs == 2 and not (len(b) <= 4 and eps(b) and eps(a)):
                continue  # quick: two-arc one-state operands only against small epsilon-bearing machines
            cases.append({"mode": "pair", "F": fsm.ops_json(a), "G": fsm.ops_json(b)})
            cases.append({"mode": "pair", "F": fsm.ops_json(b), "G": fsm.ops_json(a)})
    if p["pair22"]:
        # 2x2 pairs: both machines small (<= 4 builder ops) and epsilon-bearing (the interesting association / filter cases)
        small2 = [o for o in m2 if len(o) <= 4 and eps(o)]
        for a in small2:
            for b in small2:
                cases.append({"mode": "pair", "F": fsm.ops_json(a), "G": fsm.ops_json(b)})
    for a in m1 + m2:
        cases.append({"mode": "single", "F": fsm.ops_json(a)})
    # falsy / integer symbols (token ids, bytes): the same 1x1 pairs and one-state machines with a->0, b->1
    for a in m1:
        cases.append({"mode": "single", "F": fsm.ops_json(a), "ints": True})
        for b in m1:
            cases.append({"mode": "pair", "F": fsm.ops_json(a), "G": fsm.ops_json(b), "ints": True})
    cases.append({"mode": "ctor"})
    for k in range(len(INTERLEAVE_POOLS)):
        cases.append({"mode": "interleave", "pool": k})
    return {
        "cases": cases,
        "states": s1 + s2,
        "transitions": t1 + t2 + len(cases),
        "chunk": 100,
        "rule": (
            f"E1: transducers = every machine reachable by add_I/add_F/add_arc with labels {LABELS}, 1 state (<= {p['one_arcs']} arcs) and 2 states (<= {p['two_arcs']} arcs), arcs as multisets, non-empty I and F; "
            "pair: all ordered pairs 1x1, 1x2, 2x1 (both internal association orders" + (", and 2x2" if p["pair22"] else "") + f"), disjoint free indeterminates (Poly_D, D={p['D']}): the path-enumeration table of the RESULT machine f@g must equal "
            "sum_y R4_f[x,y]*R4_g[y,z] for ALL string pairs at once; also through the library: (f@g)(x,z); Boolean pass. single: f(x,y), f(x,None)(y), f(None,y)(x), f.T(y,x), f.project(k) for all string pairs <= 2, "
            "diag of the projection. ctor: from_string, from_pairs (all lists of <= 2 pairs of strings <= 2), diag. non-trivial = both operands relate some pair and the composition is non-empty"
        ),
        "bounds": {k: v for k, v in p.items()},
        "assumptions": ["modulo degree > D"],
    }


def _fail(pred, inp, obs, exp):
    return {"pred": pred, "input": inp, "observed": short(obs), "expected": short(exp)}


def _call(f, *a):
    try:
        return f(*a)
    except CaseTimeout:
        raise
    except Exception as e:  # noqa: BLE001
        return f"EXC {type(e).__name__}: {e}"


def clean(t):
    return {k: v for k, v in t.items() if v != Poly.zero}


def compose_tables(tF, tG):
    out = {}
    byin = {}
    for (y, z), w in tG.items():
        byin.setdefault(y, []).append((z, w))
    for (x, y), wf in tF.items():
        for z, wg in byin.get(y, ()):
            w = wf * wg
            if w == Poly.zero:
                continue
            k = (x, z)
            out[k] = out[k] + w if k in out else w
    return out


def table_of(m, fst=True):
    if isinstance(m, str):
        return m
    try:
        return clean(paths(machine_data(m), fst=fst))
    except Diverges as e:
        return f"diverges: {e}"
    except (IndexError, ValueError, TypeError) as e:
        return f"malformed machine (arc label is not a pair?): {type(e).__name__}: {e}"


IMAP = {"a": 0, "b": 1}


def int_ops(ops):
    return tuple(o if o[0] != "A" else ("A", o[1], (IMAP.get(o[2][0], o[2][0]), IMAP.get(o[2][1], o[2][1])), o[3]) for o in ops)


def run_pair(case):
    p = cfgp()
    F = fsm.ops_from_json(case["F"])
    G = fsm.ops_from_json(case["G"])
    SY = ["a", "b"]
    if case.get("ints"):
        F, G, SY = int_ops(F), int_ops(G), [0, 1]
    narcs = sum(1 for o in F + G if o[0] == "A")
    if narcs <= 2:
        # few arcs: indeterminates on initial and final weights too (their handling is checked here)
        WF = fsm.poly_weights(len(F))
        WG = fsm.poly_weights(len(G), offset=len(F))
    else:
        # spend the degree budget on arcs: path pairs with up to D-2 arcs in total are compared
        WF = fsm.arc_weights(F, unit=("I", "F"))
        WG = fsm.arc_weights(G, offset=len(F), unit=("I", "F"))
    tF = clean(paths(fsm.data(F, WF), fst=True))
    tG = clean(paths(fsm.data(G, WG), fst=True))
    want = compose_tables(tF, tG)
    inp0 = {"F": case["F"], "G": case["G"]} if not case.get("ints") else {"F": case["F"], "G": case["G"], "symbols": "a,b -> 0,1"}
    fails = []
    evals = 0
    f = fsm.build(FST, Poly, F, WF)
    g = fsm.build(FST, Poly, G, WG)
    fg = _call(lambda: f @ g)
    have = table_of(fg)
    evals += 1
    if have != want:
        fails.append(_fail("(f@g) relates x to z with sum_y f(x,y)*g(y,z)", inp0, have, want))
    if fsm.no_repeats(F) and fsm.no_repeats(G) and len(F) + len(G) <= 8:
        # the same machines built through the public set_I / set_F / set_arc
        fs = fsm.build(FST, Poly, F, WF, use_set=True)
        gs = fsm.build(FST, Poly, G, WG, use_set=True)
        have = table_of(_call(lambda: fs @ gs))
        evals += 1
        if have != want:
            fails.append(_fail("(f@g) for machines built with set_arc/set_I/set_F", inp0, have, want))
    if not isinstance(fg, str):
        # through the library's own evaluation, on the shortest related pair and two fixed probes
        probes = sorted(want, key=lambda k: (len(k[0]) + len(k[1]), repr(k)))[:1] + [((), ()), ((SY[0],), (SY[1],))]
        for x, z in probes:
            if len(x) > 2 or len(z) > 2:
                continue
            hv = _call(fg, x, z)
            evals += 1
            w = want.get((x, z), Poly.zero)
            if not (isinstance(hv, Poly) and hv == w):
                fails.append(_fail("(f@g)(x,z) == sum_y f(x,y)*g(y,z)", dict(inp0, x=list(x), z=list(z)), hv, w))
                break
    # Boolean pass: relation composition
    fb = fsm.build(FST, Boolean, F, [Boolean.one] * len(F))
    gb = fsm.build(FST, Boolean, G, [Boolean.one] * len(G))
    fgb = _call(lambda: fb @ gb)
    if isinstance(fgb, str):
        fails.append(_fail("Boolean f@g: construct", inp0, fgb, "transducer"))
    else:
        d = machine_data(fgb)
        for (x, z) in list(want)[:6]:
            hv = fst_weight(d, x, z, Boolean)
            evals += 1
            if hv != Boolean.one:
                fails.append(_fail("Boolean (f@g) relates every composed pair", dict(inp0, x=list(x), z=list(z)), hv, True))
    return {"evals": evals, "nontrivial": int(bool(want)), "fails": fails, "counters": {"executions": evals, "nonempty_compositions": int(bool(want))}}


def run_single(case):
    p = cfgp()
    F = fsm.ops_from_json(case["F"])
    SY = ["a", "b"]
    if case.get("ints"):
        F, SY = int_ops(F), [0, 1]
    WF = fsm.poly_weights(len(F))
    tF = clean(paths(fsm.data(F, WF), fst=True))
    inp0 = {"F": case["F"]} if not case.get("ints") else {"F": case["F"], "symbols": "a,b -> 0,1"}
    fails = []
    evals = 0
    f = fsm.build(FST, Poly, F, WF)
    strs = list(strings_upto(SY, p["strlen"]))
    for x in strs:
        for y in strs:
            want = tF.get((x, y), Poly.zero)
            hv = _call(f, x, y)
            evals += 1
            if not (isinstance(hv, Poly) and hv == want):
                fails.append(_fail("f(x,y) == sum over paths labelled x:y", dict(inp0, x=list(x), y=list(y)), hv, want))
            hv = _call(lambda: f.T(y, x))
            evals += 1
            if not (isinstance(hv, Poly) and hv == want):
                fails.append(_fail("f.T(y,x) == f(x,y)", dict(inp0, x=list(x), y=list(y)), hv, want))
    for x in strs:
        sec = _call(f, x, None)
        want = {y: w for (xx, y), w in tF.items() if xx == x}
        have = table_of(sec, fst=False)
        evals += 1
        if have != want:
            fails.append(_fail("f(x,None) is the cross-section y -> f(x,y)", dict(inp0, x=list(x)), have, want))
        elif not isinstance(sec, str):
            # ... and evaluated the way a user evaluates it: by the acceptor's own __call__
            for y in strs:
                hv = _call(sec, y)
                evals += 1
                w = want.get(y, Poly.zero)
                if not (isinstance(hv, Poly) and hv == w):
                    fails.append(_fail("f(x,None)(y) == f(x,y)", dict(inp0, x=list(x), y=list(y)), hv, w))
                    break
        sec = _call(f, None, x)
        want = {xx: w for (xx, y), w in tF.items() if y == x}
        have = table_of(sec, fst=False)
        evals += 1
        if have != want:
            fails.append(_fail("f(None,y) is the cross-section x -> f(x,y)", dict(inp0, y=list(x)), have, want))
        elif not isinstance(sec, str):
            for y in strs:
                hv = _call(sec, y)
                evals += 1
                w = want.get(y, Poly.zero)
                if not (isinstance(hv, Poly) and hv == w):
                    fails.append(_fail("f(None,y)(x) == f(x,y)", dict(inp0, y=list(x), x=list(y)), hv, w))
                    break
    for axis in (0, 1):
        pr = _call(f.project, axis)
        want = {}
        for k, w in tF.items():
            want[k[axis]] = want[k[axis]] + w if k[axis] in want else w
        have = table_of(pr, fst=False)
        evals += 1
        if have != want:
            fails.append(_fail("project(axis) sums out the other tape", dict(inp0, axis=axis), have, want))
        elif not isinstance(pr, str):
            for y in strs:
                hv = _call(pr, y)
                evals += 1
                w = want.get(y, Poly.zero)
                if not (isinstance(hv, Poly) and hv == w):
                    fails.append(_fail("project(axis)(x) == sum over the other tape", dict(inp0, axis=axis, x=list(y)), hv, w))
                    break
        if not isinstance(pr, str):
            dg = _call(FST.diag, pr)
            have = table_of(dg)
            evals += 1
            w2 = {(k, k): w for k, w in want.items()}
            if have != w2:
                fails.append(_fail("diag(acceptor) maps each string to itself with its weight", dict(inp0, axis=axis), have, w2))
    if table_of(_call(lambda: f.T)) != {(y, x): w for (x, y), w in tF.items()}:
        fails.append(_fail("T swaps the tapes", inp0, table_of(_call(lambda: f.T)), "transpose"))
    return {"evals": evals, "nontrivial": int(bool(tF)), "fails": fails, "counters": {"executions": evals}}


def run_ctor(case):
    fails = []
    evals = 0
    strs = list(strings_upto(["a", "b"], 2))
    for R, one in ((Poly, Poly.one), (Float, 1), (Boolean, Boolean.one)):
        for x in strs:
            for form in (x, "".join(x)):
                m = _call(lambda: FST.from_string(form, R))
                for y in strs:
                    hv = m if isinstance(m, str) else _call(m, y, y)
                    evals += 1
                    want = one if y == x else R.zero
                    if hv != want:
                        fails.append(_fail("from_string(xs) relates exactly xs to xs with weight one", {"xs": form, "y": list(y), "R": R.__name__}, hv, want))
        pairs_all = [(x, y) for x in strs for y in strs]
        lists = [[]] + [[pq] for pq in pairs_all] + [[pq, rs] for pq in pairs_all[:12] for rs in pairs_all[:12]]
        for L in lists:
            for form in ("tuple", "str"):
                LL = [(("".join(x), "".join(y)) if form == "str" else (x, y)) for x, y in L]
                m = _call(lambda: FST.from_pairs(LL, R))
                want = {}
                for x, y in L:
                    want[(x, y)] = want.get((x, y), 0) + 1
                if isinstance(m, str):
                    fails.append(_fail("from_pairs: construct", {"pairs": [[list(x), list(y)] for x, y in L], "R": R.__name__}, m, "transducer"))
                    continue
                if R is Poly:
                    have = table_of(m)
                    evals += 1
                    w2 = {k: Poly.const(c) for k, c in want.items()}
                    if have != w2:
                        fails.append(_fail("from_pairs relates exactly the given pairs (reference evaluation)", {"pairs": [[list(x), list(y)] for x, y in L], "R": "Poly"}, have, w2))
                for (x, y) in (L[:2] + [(("a",), ("b", "b"))]):
                    hv = _call(m, x, y)
                    evals += 1
                    c = want.get((x, y), 0)
                    w = (Poly.const(c) if R is Poly else c if R is Float else Boolean(c > 0))
                    if hv != w:
                        fails.append(_fail("from_pairs(pairs)(x,y)", {"pairs": [[list(a), list(b)] for a, b in L], "x": list(x), "y": list(y), "R": R.__name__}, hv, w))
    return {"evals": evals, "nontrivial": 1, "fails": fails, "counters": {"executions": evals}}


INTERLEAVE_POOLS = [
    [("I", 0), ("F", 1), ("A", 0, ("a", "b"), 1), ("A", 1, (EPS, "a"), 1), ("A", 1, ("a", EPS), 0), ("F", 0)],
    [("I", 0), ("F", 0), ("A", 0, ("a", "a"), 0), ("A", 0, ("b", EPS), 1), ("A", 1, (EPS, EPS), 0), ("I", 1)],
]


def run_interleave(case):
    """Histories interleaving add_I / add_F / add_arc with queries on ONE transducer object
    (and on objects derived from it, e.g. t = f.T extended afterwards)."""
    from vf import engine_hist as eh

    pool = INTERLEAVE_POOLS[case["pool"]]
    W = fsm.poly_weights(len(pool))
    G_ops = (("I", 0), ("F", 0), ("A", 0, ("a", "a"), 0), ("A", 0, ("b", "a"), 0), ("A", 0, (EPS, "b"), 0))
    WG = fsm.poly_weights(len(G_ops), offset=20)

    def make():
        return {"f": FST(Poly), "t": None}

    def add(m, op, w):
        if op[0] == "I":
            m.add_I(op[1], w)
        elif op[0] == "F":
            m.add_F(op[1], w)
        else:
            m.add_arc(op[1], op[2], op[3], w)

    # builder ops 0..n-1 extend f; builder ops n..2n-1 extend the transpose object t = f.T obtained EARLIER (if any)
    n = len(pool)

    def apply_builder(o, i):
        if i < n:
            add(o["f"], pool[i], W[i])
        else:
            if o["t"] is None:
                o["t"] = o["f"].T
            op = pool[i - n]
            op2 = op if op[0] != "A" else ("A", op[1], (op[2][1], op[2][0]), op[3])
            add(o["t"], op2, W[i - n])

    queries = [("call", ("a",), ("b",)), ("call", (), ()), ("T", None), ("project0", None), ("project1", None), ("f@g", None), ("g@f", None), ("section", ("a",)), ("t.T", None), ("t.call", ("b",), ("a",)), ("table", None)]

    def apply_query(o, q):
        f = o["f"]
        k = q[0]
        if k == "call":
            return _call(lambda: ("val", f(q[1], q[2])))
        if k == "T":
            return table_of(_call(lambda: f.T))
        if k == "project0":
            return table_of(_call(f.project, 0), fst=False)
        if k == "project1":
            return table_of(_call(f.project, 1), fst=False)
        if k == "f@g":
            return table_of(_call(lambda: f @ fsm.build(FST, Poly, G_ops, WG)))
        if k == "g@f":
            return table_of(_call(lambda: fsm.build(FST, Poly, G_ops, WG) @ f))
        if k == "section":
            return table_of(_call(f, q[1], None), fst=False)
        if k == "table":
            return table_of(f)
        t = o["t"] if o["t"] is not None else f.T
        if k == "t.T":
            return table_of(_call(lambda: t.T))
        return _call(lambda: ("val", t(q[1], q[2])))

    def fresh_equiv(a, b):
        return a == b

    # the fresh object for a history receives the same builder ops; ops on t are replayed as ops on f's transpose:
    # a fresh object applies them to f directly (transposed back), so that 't' always denotes transpose(f + extensions)
    def make_fresh_semantics():
        return None

    res = eh.explore_interleaved(make, list(range(2 * n)), queries, apply_builder, apply_query, fresh_equiv, depth=4, max_queries=2)
    fails = []
    seen = set()
    for hist, have, want in res["violations"]:
        if any(k == "b" and i >= n for k, i in hist):
            # histories that extend t: the reference semantics (fresh object) extends its own fresh transpose at
            # the same point; both objects see the same operations, so answers must still agree
            pass
        q = queries[hist[-1][1]]
        first_q = next(queries[i] for k, i in hist if k == "q")
        key = (repr(q), repr(first_q), any(k == "b" and i >= n for k, i in hist))
        if key in seen:
            continue
        seen.add(key)
        pretty = [(("extend f " if i < n else "extend t=f.T ") + repr(pool[i % n])) if k == "b" else repr(queries[i]) for k, i in hist]
        fails.append(_fail("transducer: answer after add_* equals a fresh transducer's (no stale cache)", {"object": "FST", "history": pretty}, have, want))
    return {"evals": res["transitions"], "nontrivial": 1, "fails": fails, "counters": {"executions": res["transitions"], "hist_histories": res["histories"]}}


def run_case(case):
    return {"pair": run_pair, "single": run_single, "ctor": run_ctor, "interleave": run_interleave}[case["mode"]](case)
