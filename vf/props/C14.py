"""C14 - real-weighted equivalence test and minimisation are exact."""
import gc
from fractions import Fraction

from vf import fsm
from vf.gram import short
from vf.ref_fsa import Diverges, equivalent_exact, fsa_weight, hankel_rank, machine_data, mat_weight, to_matrices
from vf.runner import CaseTimeout, time_limit
from vf.spaces import bfs_machines, strings_upto

from genlm.grammar.semiring import Float
from genlm.grammar.wfsa.field_wfsa import WFSA

ID = "C14"
LEVEL = "model_checking"
TIER = "quick"
EPS = ""
ALPH = [Fraction(1, 2), Fraction(1, 4), Fraction(1, 3), Fraction(1), Fraction(2), Fraction(3, 2)]


def cfgp():
    if TIER == "thorough":
        return dict(spaces=[(2, ["a", "b", EPS], 3), (3, ["a", EPS], 3), (1, ["a", "b", EPS], 3)], pair_space=(1, ["a", "b", EPS], 2))
    return dict(spaces=[(2, ["a", "b", EPS], 3), (1, ["a", "b", EPS], 3)], pair_space=(1, ["a", "b", EPS], 2))


def init_worker(tier):
    global TIER
    TIER = tier


def plan(tier, seed):
    global TIER
    TIER = tier
    p = cfgp()
    cases = []
    nstates = ntrans = 0
    for ns, labels, ma in p["spaces"]:
        ms, tr = bfs_machines(ns, labels, ma)
        nstates += len(ms)
        ntrans += tr
        for ops in ms:
            cases.append({"mode": "mut", "ops": fsm.ops_json(ops), "labels": labels, "nstates": ns})
    ns, labels, ma = p["pair_space"]
    ms, tr = bfs_machines(ns, labels, ma)
    ms = [o for o in ms if any(x[0] == "I" for x in o) and any(x[0] == "F" for x in o)] + [()]
    for a in ms:
        cases.append({"mode": "pairs", "ops": fsm.ops_json(a), "labels": labels, "nstates": ns})
    dense = dense_cases(tier)
    cases += dense
    return {
        "cases": cases,
        "states": nstates + len(ms) + len(dense),
        "transitions": ntrans + tr + sum(2 * c["n"] ** 2 for c in dense),
        "chunk": 20,
        "rule": (
            f"E1: A ranges over every automaton reachable by add_I/add_F/add_arc in the spaces {p['spaces']} with weights from the rational alphabet {[str(x) for x in ALPH]} (as floats in the library, as Fractions in the oracle); "
            "B ranges over every one-step mutation of A (one weight changed to the next alphabet value or doubled, one arc removed / relabelled / added) and over the language-preserving images epsremove, reverse.reverse, push, trim, renumber, A+zero, one*A, A.min; "
            f"pairs mode: all ordered pairs of the {len(ms)} one-state machines. Oracle: exact equivalence over the rationals (decides all strings): counterexample is None <=> equivalent; a returned counterexample is flattened and re-evaluated exactly on both machines "
            "(must reproduce the two reported weights and differ); == and hash agree with equivalence; min terminates (watchdog 5 s + one retry), A.min agrees with A on every string of length < dim(A)+dim(min) (sufficient for equivalence), A.min.dim == exact Hankel rank. "
            f"dense mode: {len(dense)} DENSE automata (every arc present) over {{a,b}} with 3..6 states and integer weights 1..20 given by a grid of index formulas, plus copies with one state duplicated "
            "(rank < number of states): min.dim == exact Hankel rank <= number of states, min equivalent on all strings <= 3, counterexample(A, A.min) is None. "
            "non-trivial = A has an accepting path"
        ),
        "bounds": {k: v for k, v in p.items()},
        "assumptions": ["well-conditioned weights: the library compares with numpy.allclose (rtol 1e-5, atol 1e-8); all enumerated differences are far above it", "machines with a divergent epsilon closure are skipped and counted"],
    }


def _fail(pred, inp, obs, exp):
    return {"pred": pred, "input": inp, "observed": short(obs), "expected": short(exp)}


def weights(ops, shift=0):
    return [ALPH[(i + shift) % len(ALPH)] for i in range(len(ops))]


def lib(ops, W, names=None):
    return fsm.build(WFSA, Float, ops, [float(w) for w in W], names=names)


NAME_CONFIGS = [
    ("negative-ints", {0: -1, 1: 1, 2: -2}),
    ("swapped", {0: 1, 1: 0, 2: 2}),
    ("large-ints", {0: 7, 1: 3, 2: 100}),
    ("tuples", {0: ("q", 0), 1: ("q", 1), 2: ("q", 2)}),
    ("mixed", {0: "a", 1: 0, 2: ()}),
]


def flatten(w):
    out = []
    while w != ():
        a, w = w
        out.append(a)
    return tuple(out)


def guarded(f, limit=5):
    """Runs f with a watchdog; one retry with a larger budget before declaring non-termination."""
    for lim in (limit, limit * 6):
        try:
            with time_limit(lim):
                return f()
        except CaseTimeout:
            gc.collect()
        except Exception as e:  # noqa: BLE001
            return f"EXC {type(e).__name__}: {e}"
    return "TIMEOUT"


def compare(A_ops, WA, B_ops, WB, inp, fails, what):
    """library verdict on (A,B) vs exact equivalence."""
    try:
        mA = to_matrices(fsm.data(A_ops, WA))
        mB = to_matrices(fsm.data(B_ops, WB))
    except Diverges:
        return 0, 1
    w = equivalent_exact(mA, mB)
    a = lib(A_ops, WA)
    b = lib(B_ops, WB)
    ce = guarded(lambda: a.counterexample(b))
    if isinstance(ce, str):
        fails.append(_fail("counterexample: returns", dict(inp, pair=what), ce, "None or (word, va, vb)"))
        return 1, 0
    if (ce is None) != (w is None):
        fails.append(_fail("counterexample is None <=> the automata are equivalent", dict(inp, pair=what), ce, f"exact: {'equivalent' if w is None else 'differ on ' + repr(w)}"))
    elif ce is not None:
        word = flatten(ce[0])
        ea, eb = mat_weight(mA, word), mat_weight(mB, word)
        ok = ea != eb and abs(float(ea) - float(ce[1])) <= 1e-6 * max(1, abs(float(ea))) and abs(float(eb) - float(ce[2])) <= 1e-6 * max(1, abs(float(eb)))
        if not ok:
            fails.append(_fail("a returned counterexample really separates the automata with the reported weights", dict(inp, pair=what), ce, (word, ea, eb)))
    eq = guarded(lambda: a == b)
    if eq != (w is None):
        fails.append(_fail("== agrees with language equality", dict(inp, pair=what), eq, w is None))
    if w is None and guarded(lambda: hash(a) == hash(b)) is not True:
        fails.append(_fail("equal automata hash equally", dict(inp, pair=what), "hash differs", "same hash"))
    return 1, 0


def mutations(ops, labels, nstates):
    n = len(ops)
    W = weights(ops)
    for k in range(n):
        W2 = list(W)
        W2[k] = ALPH[(ALPH.index(W[k]) + 1) % len(ALPH)]
        yield f"weight[{k}]->{W2[k]}", ops, W2
        W3 = list(W)
        W3[k] = W[k] * 2
        yield f"weight[{k}]*2", ops, W3
    for k in range(n):
        if ops[k][0] != "A":
            # drop an initial / final weight (may leave a machine without initial or final states)
            yield f"remove {ops[k][0]} op {k}", ops[:k] + ops[k + 1 :], W[:k] + W[k + 1 :]
    for k in range(n):
        if ops[k][0] == "A":
            yield f"remove arc {k}", ops[:k] + ops[k + 1 :], W[:k] + W[k + 1 :]
            for lab in labels:
                if lab != ops[k][2]:
                    o2 = ops[:k] + (("A", ops[k][1], lab, ops[k][3]),) + ops[k + 1 :]
                    yield f"relabel arc {k}->{lab!r}", o2, W
    for i in range(nstates):
        for lab in labels:
            for j in range(nstates):
                yield f"add arc {i}-{lab!r}->{j}", ops + (("A", i, lab, j),), W + [ALPH[2]]


IMAGES = [
    ("epsremove", lambda m: m.epsremove),
    ("reverse.reverse", lambda m: m.reverse.reverse),
    ("push", lambda m: m.push),
    ("trim", lambda m: m.trim),
    ("renumber", lambda m: m.renumber),
    ("A+zero", lambda m: m + WFSA.zero),
    ("one*A", lambda m: WFSA.one * m),
    ("min", lambda m: m.min),
]


def run_mut(case):
    ops = fsm.ops_from_json(case["ops"])
    labels = case["labels"]
    alphabet = [a for a in labels if a != EPS]
    W = weights(ops)
    inp0 = {"ops": case["ops"]}
    fails = []
    evals = 0
    skipped = 0
    try:
        mA = to_matrices(fsm.data(ops, W))
    except Diverges:
        return {"evals": 0, "nontrivial": 0, "fails": [], "counters": {"skipped_divergent": 1}}
    # A vs A (reflexivity) and A vs mutations
    e, s = compare(ops, W, ops, W, inp0, fails, "A,A")
    evals += e
    # state-name configurations: renaming the states never changes the verdicts
    for cname, names in NAME_CONFIGS:
        a = lib(ops, W, names)
        b = lib(ops, W)
        ce = guarded(lambda: a.counterexample(b))
        evals += 1
        if ce is not None:
            fails.append(_fail("equivalence test is independent of the state names", dict(inp0, names=cname), ce, None))
        mn = guarded(lambda: lib(ops, W, names).min)
        if isinstance(mn, str):
            fails.append(_fail("min: returns an automaton (any state names)", dict(inp0, names=cname), mn, "automaton"))
        else:
            ce2 = guarded(lambda: lib(ops, W).counterexample(mn))
            if ce2 is not None:
                fails.append(_fail("min is equivalent to its input (any state names)", dict(inp0, names=cname), ce2, None))
        for x in strings_upto(alphabet, 2):
            hv = guarded(lambda: a(x))
            wv = mat_weight(mA, x)
            if isinstance(hv, str) or abs(float(hv) - float(wv)) > 1e-9 * max(1.0, abs(float(wv))):
                fails.append(_fail("string weight is independent of the state names", dict(inp0, names=cname, x=list(x)), hv, wv))
                break
    for what, o2, W2 in mutations(ops, labels, case["nstates"]):
        e, s = compare(ops, W, o2, list(W2), dict(inp0, mutation=what), fails, "A,mutant")
        evals += e
        skipped += s
        e, s = compare(o2, list(W2), ops, W, dict(inp0, mutation=what), fails, "mutant,A")
        evals += e
    # language-preserving images must be reported equivalent
    start0, stop0, arcs0 = fsm.data(ops, W)
    allw = {}
    for i, a, j, w in arcs0:
        allw[(i, j)] = allw.get((i, j), 0) + w
    from vf.ref_fsa import spectral_ok

    total_converges = spectral_ok(sorted({q for q in start0} | {q for q in stop0} | {i for i, _, _, _ in arcs0} | {j for _, _, j, _ in arcs0}), allw)
    for name, f in IMAGES:
        if name == "push" and not total_converges:
            continue  # weight pushing needs finite backward weights (path sums over all strings converge)
        a = lib(ops, W)
        img = guarded(lambda: f(a))
        evals += 1
        if isinstance(img, str):
            if img == "TIMEOUT":
                fails.append(_fail(f"{name}: terminates", dict(inp0, image=name), "no result within 5 s and again within 30 s", "automaton"))
            elif name in ("push",) and "ZeroDivision" in img:
                pass  # push needs invertible backward weights; not part of this property
            else:
                fails.append(_fail(f"{name}: returns an automaton", dict(inp0, image=name), img, "automaton"))
            continue
        ce = guarded(lambda: lib(ops, W).counterexample(img))
        if ce is not None:
            fails.append(_fail("language-preserving image is reported equivalent", dict(inp0, image=name), ce, None))
        if name == "min":
            # exact facts about the minimal automaton
            want_dim = hankel_rank(mA, alphabet, len(mA[0]))
            if img.dim != want_dim:
                fails.append(_fail("min: number of states == rank of the Hankel matrix", dict(inp0), img.dim, want_dim))
            d = machine_data(img)
            L = len(mA[0]) + img.dim
            for x in strings_upto(alphabet, min(max(L - 1, 1), 5)):
                try:
                    hv = fsa_weight(d, x, Float, tol=1e-15, maxit=500)
                except Diverges:
                    hv = "diverges"
                wv = mat_weight(mA, x)
                evals += 1
                if isinstance(hv, str) or abs(hv - float(wv)) > 1e-6 * max(1.0, abs(float(wv))):
                    fails.append(_fail("min: equivalent to the input", dict(inp0, x=list(x)), hv, wv))
                    break
    # weight configurations for min: all weights EQUAL (several initial / final states with the same weight),
    # and weights of alternating sign (vectors whose entries cancel although the vector is not null)
    n = len(ops)
    for cname, W2 in (("uniform 1/2", [Fraction(1, 2)] * n), ("alternating signs", [w * (-1) ** i for i, w in enumerate(W)]), ("alternating signs, uniform", [Fraction(1, 2) * (-1) ** i for i in range(n)])):
        try:
            m2 = to_matrices(fsm.data(ops, W2))
        except Diverges:
            skipped += 1
            continue
        mn = guarded(lambda: lib(ops, W2).min)
        evals += 1
        inp2 = dict(inp0, weights=cname)
        if isinstance(mn, str):
            fails.append(_fail("min: terminates and returns an automaton", inp2, mn, "automaton"))
            continue
        want_dim = hankel_rank(m2, alphabet, len(m2[0]))
        if mn.dim != want_dim:
            fails.append(_fail("min: number of states == rank of the Hankel matrix", inp2, mn.dim, want_dim))
        d = machine_data(mn)
        for x in strings_upto(alphabet, min(max(len(m2[0]) + mn.dim - 1, 1), 4)):
            try:
                hv = fsa_weight(d, x, Float, tol=1e-15, maxit=500)
            except Diverges:
                hv = "diverges"
            wv = mat_weight(m2, x)
            evals += 1
            if isinstance(hv, str) or abs(hv - float(wv)) > 1e-6 * max(1.0, abs(float(wv))):
                fails.append(_fail("min: equivalent to the input", dict(inp2, x=list(x)), hv, wv))
                break
    acc = any(o[0] == "I" for o in ops) and any(o[0] == "F" for o in ops)
    return {"evals": evals, "nontrivial": int(acc), "fails": fails, "counters": {"executions": evals, "skipped_divergent": skipped}}


def run_pairs(case):
    p = cfgp()
    A = fsm.ops_from_json(case["ops"])
    ns, labels, ma = p["pair_space"]
    ms, _ = bfs_machines(ns, labels, ma)
    ms = [o for o in ms if any(x[0] == "I" for x in o) and any(x[0] == "F" for x in o)] + [()]
    fails = []
    evals = 0
    for B in ms:
        for shift in (0, 1):
            e, s = compare(A, weights(A), B, weights(B, shift), {"ops": case["ops"], "B": fsm.ops_json(B), "shift": shift}, fails, "A,B")
            evals += e
    return {"evals": evals, "nontrivial": 1, "fails": fails, "counters": {"executions": evals}}


def dense_cases(tier):
    out = []
    sizes = (3, 4, 5, 6)
    grid = [(7, 3, 5), (1, 1, 1), (2, 5, 11), (13, 7, 3)] if tier == "thorough" else [(7, 3, 5), (2, 5, 11)]
    for n in sizes:
        for (p, q, r) in grid:
            for dup in (False, True):
                out.append({"mode": "dense", "n": n, "coef": [p, q, r], "dup": dup})
    return out


def dense_weight(coef, i, a, j):
    p, q, r = coef
    return 1 + (p * i + q * j + r * a + i * j + (i + 1) * (j + 2) * (a + 1)) % 20


def run_dense(case):
    """Dense automata with integer weights 1..20: forward/backward vectors grow to ~1e8 within dim steps, so
    an ABSOLUTE redundancy test in the basis construction is wrong here although every weight is moderate."""
    n, coef, dup = case["n"], case["coef"], case["dup"]
    SY = ["a", "b"]
    # with dup: the last state is a copy of state 0's outgoing behaviour -> rank drops below n
    src = lambda i: 0 if (dup and i == n - 1) else i  # noqa: E731
    ops = [("I", 0)]
    W = [Fraction(1)]
    for i in range(n):
        for ai, a in enumerate(SY):
            for j in range(n):
                ops.append(("A", i, a, j))
                W.append(Fraction(dense_weight(coef, src(i), ai, j)))
    ops.append(("F", n - 1))
    W.append(Fraction(1))
    if dup:
        ops.append(("F", 0))
        W.append(Fraction(1))
    ops = tuple(ops)
    inp0 = {"dense": case}
    fails = []
    evals = 0
    mA = to_matrices(fsm.data(ops, W))
    a = lib(ops, W)
    mn = guarded(lambda: a.min, limit=20)
    evals += 1
    if isinstance(mn, str):
        fails.append(_fail("min: terminates and returns an automaton (dense integer weights)", inp0, mn, "automaton"))
        return {"evals": evals, "nontrivial": 1, "fails": fails, "counters": {"executions": evals}}
    want_dim = hankel_rank(mA, SY, n - 1)  # words shorter than the number of states suffice on both sides
    if mn.dim != want_dim:
        fails.append(_fail("min: number of states == rank of the Hankel matrix (dense integer weights)", inp0, mn.dim, want_dim))
    for x in strings_upto(SY, 3):
        hv = guarded(lambda: mn(x))
        wv = mat_weight(mA, x)
        evals += 1
        if isinstance(hv, str) or abs(float(hv) - float(wv)) > 1e-6 * max(1.0, abs(float(wv))):
            fails.append(_fail("min: equivalent to the input (dense integer weights)", dict(inp0, x=list(x)), hv, wv))
            break
    ce = guarded(lambda: lib(ops, W).counterexample(mn))
    evals += 1
    if ce is not None:
        fails.append(_fail("counterexample(A, A.min) is None (dense integer weights)", inp0, ce, None))
    return {"evals": evals, "nontrivial": 1, "fails": fails, "counters": {"executions": evals, "dense_max_dim": n, "dense_rank_deficient": int(want_dim < n)}}


def run_case(case):
    return {"mut": run_mut, "pairs": run_pairs, "dense": run_dense}[case["mode"]](case)
