"""C17 - automaton->grammar and byte-level conversions preserve weights."""
import itertools

from vf import fsm, gram
from vf.gram import short
from vf.ref_cfg import NoConvergence, enum_derivs, enum_weighted, rules_of
from vf.ref_fsa import Diverges, machine_data, paths
from vf.runner import CaseTimeout
from vf.semirings import Poly
from vf.spaces import bfs_machines, strings_upto

from genlm.grammar.cfg import CFG
from genlm.grammar.semiring import Float
from genlm.grammar.wfsa import base
from genlm.grammar.wfsa.field_wfsa import WFSA as FieldWFSA

ID = "C17"
LEVEL = "model_checking"
TIER = "quick"
EPS = ""
# characters with a singleton canonical decomposition next to their normal forms: U+212B ANGSTROM / U+00C5,
# U+212A KELVIN / K, U+2126 OHM / U+03A9 - distinct characters with distinct encodings (no normalisation)
NFC_CHARS = ["\u212b", "\u00c5", "\u212a", "K", "\u2126", "\u03a9"]
MB = ["a", "é", "ü", "€", "👋", "𐐀", "₂"]  # 1, 2, 2 (same first byte), 3, 4 bytes; U+10400 = f0 90 90 80 and U+2082 = e2 82 82 repeat a continuation byte


def cfgp():
    if TIER == "thorough":
        return dict(D=6, cfg_space=(2, ["a", "b", EPS], 4), byte_spaces=[(2, ["a", "é", "ü", EPS], 3), (2, ["é", "€", "👋", EPS], 2), (1, ["a", "é", "ü", "€", "👋", "𐐀", "₂", EPS], 2), (2, ["𐐀", "₂", "é", EPS], 2), (1, NFC_CHARS + [EPS], 3)], merge_arcs=2, gdepth=3)
    return dict(D=5, cfg_space=(2, ["a", "b", EPS], 3), byte_spaces=[(2, ["a", "é", "ü", EPS], 2), (1, ["a", "é", "ü", "€", "👋", "𐐀", "₂", EPS], 2), (1, NFC_CHARS + [EPS], 2)], merge_arcs=2, gdepth=2)


def init_worker(tier):
    global TIER
    TIER = tier
    Poly.D = cfgp()["D"]


NAMINGS = [
    ("ints", {0: 0, 1: 1, 2: 2}),
    ("tuples", {0: ("q", 0), 1: ("q", 1), 2: ("q", 2)}),
    ("alphabet-symbols", {0: "a", 1: "b", 2: "c"}),
    ("string-prefixes", {0: "", 1: "a", 2: "ab"}),
    ("tuple-prefixes", {0: (), 1: ("a",), 2: ("a", "b")}),
    ("swapped-symbols", {0: "b", 1: "a", 2: ""}),
]


def linear_machines(labels, max_arcs):
    """machines with I and F non-empty, for the merge family (kept small)."""
    ms, tr = bfs_machines(2, labels, max_arcs)
    return [o for o in ms if any(x[0] == "I" for x in o) and any(x[0] == "F" for x in o) and sum(1 for x in o if x[0] == "A") >= 1 and len(o) <= 4], len(ms), tr


def plan(tier, seed):
    global TIER
    TIER = tier
    p = cfgp()
    cases = []
    nstates = ntrans = 0
    ns, labels, ma = p["cfg_space"]
    ms, tr = bfs_machines(ns, labels, ma)
    nstates += len(ms)
    ntrans += tr
    for ops in ms:
        cases.append({"mode": "to_cfg", "ops": fsm.ops_json(ops), "labels": labels})
    for ns, labels, ma in p["byte_spaces"]:
        ms, tr = bfs_machines(ns, labels, ma)
        nstates += len(ms)
        ntrans += tr
        for ops in ms:
            cases.append({"mode": "to_bytes", "ops": fsm.ops_json(ops), "labels": labels})
    mm, s2, t2 = linear_machines(["é", "ü", "a"], p["merge_arcs"])
    nstates += s2
    ntrans += t2
    for a in mm:
        for b in mm:
            cases.append({"mode": "merge", "A": fsm.ops_json(a), "B": fsm.ops_json(b)})
    for terms in (("a", "é"), ("ab", "€"), ("é", "ü")):
        base_g, gs, gt = gram.grammar_cases(p["gdepth"], terms=terms, with_sharp=False)
        nstates += gs
        ntrans += gt
        for c in base_g:
            cases.append({"mode": "cfg_bytes", "rules": c["rules"], "terms": list(terms)})
    for rules, terms in (
        ([["S", ["a", "b"]], ["S", ["ab"]]], ["a", "b", "ab"]),
        ([["S", ["é"]], ["S", ["ü"]], ["S", ["S", "€"]]], ["é", "ü", "€"]),
        ([["S", ["👋", "A"]], ["A", []], ["A", ["a", "A"]]], ["👋", "a"]),
    ):
        cases.append({"mode": "cfg_bytes", "rules": rules, "terms": terms})
    cases.append({"mode": "from_string"})
    return {
        "cases": cases,
        "states": nstates,
        "transitions": ntrans + len(cases),
        "chunk": 40,
        "rule": (
            f"E1: to_cfg: every automaton of {p['cfg_space']} (BFS over add_I/add_F/add_arc) x 6 state-naming schemes (ints, tuples, names equal to alphabet symbols, the string/tuple prefixes that from_string produces) x recursion in (left,right), "
            "free weights: the derivation-enumeration table of the resulting grammar == the path-enumeration table of the automaton (all strings at once). to_bytes: every automaton of "
            f"{p['byte_spaces']} over 1-4 byte characters (é/ü share their first byte): path table of the byte automaton == {{utf8(s): sum of w(s)}} - so truncated / recombined encodings get zero; also to_bytes().to_cfg(). "
            "merge: all ordered pairs of small automata over {é,ü,a} converted with to_bytes().to_cfg() and merged into one grammar S -> X Y: table == concatenation. cfg_bytes: every grammar of <= "
            f"{p['gdepth']} rules over terminals (a,é), (ab,€), (é,ü) and collision grammars: CFG.to_bytes table == byte image of the derivation table. from_string: WFSA.from_string(xs).to_cfg()(xs) for all xs <= 3 over {{a,b}} as str and tuple. "
            "non-trivial = the automaton / grammar has a non-empty language"
        ),
        "bounds": {k: v for k, v in p.items()},
        "assumptions": ["modulo degree > D"],
    }


def _fail(pred, inp, obs, exp):
    return {"pred": pred, "input": inp, "observed": short(obs), "expected": short(exp)}


def _call(f, *a):
    try:
        return f(*a)
    except CaseTimeout:
        raise
    except Exception as e:  # noqa: BLE001
        return f"EXC {type(e).__name__}: {e}"


def clean(t):
    return {k: v for k, v in t.items() if v != Poly.zero}


def grammar_table(g):
    if isinstance(g, str):
        return g
    try:
        return enum_weighted(rules_of(g), g.S, g.V, maxsteps=60)
    except NoConvergence as e:
        return f"diverges: {e}"
    except RecursionError:
        return "diverges: recursion"


def machine_table(m):
    if isinstance(m, str):
        return m
    try:
        return clean(paths(machine_data(m)))
    except Diverges as e:
        return f"diverges: {e}"


def utf8(s):
    return tuple(b for ch in s for b in ch.encode("utf-8"))


def byte_image(tab):
    out = {}
    for s, w in tab.items():
        k = utf8(s)
        out[k] = out[k] + w if k in out else w
    return clean(out)


def run_to_cfg(case):
    ops = fsm.ops_from_json(case["ops"])
    W = fsm.poly_weights(len(ops))
    want = clean(paths(fsm.data(ops, W)))
    inp0 = {"ops": case["ops"]}
    fails = []
    evals = 0
    for nname, names in NAMINGS:
        for rec in ("right", "left"):
            m = fsm.build(base.WFSA, Poly, ops, W, names=names)
            g = _call(lambda: m.to_cfg(recursion=rec))
            have = grammar_table(g)
            evals += 1
            if have != want:
                fails.append(_fail(f"to_cfg({rec}) preserves every string weight", dict(inp0, naming=nname, recursion=rec), have, want))
            if not isinstance(g, str) and (set(g.N) & set(g.V)):
                fails.append(_fail("to_cfg: nonterminals and terminals are disjoint", dict(inp0, naming=nname, recursion=rec), sorted(map(repr, set(g.N) & set(g.V))), "disjoint"))
    return {"evals": evals, "nontrivial": int(bool(want)), "fails": fails, "counters": {"executions": evals}}


def run_to_bytes(case):
    ops = fsm.ops_from_json(case["ops"])
    W = fsm.poly_weights(len(ops))
    tab = clean(paths(fsm.data(ops, W)))
    want = byte_image(tab)
    inp0 = {"ops": case["ops"]}
    fails = []
    evals = 0
    for nname, names in NAMINGS[:2] + [("bytes-like", {0: "_bytes0", 1: "_bytes1", 2: "_bytes2"})]:
        m = fsm.build(base.WFSA, Poly, ops, W, names=names)
        bm = _call(m.to_bytes)
        have = machine_table(bm)
        evals += 1
        if have != want:
            fails.append(_fail("to_bytes: byte string weight == total weight of the symbol strings it encodes", dict(inp0, naming=nname), have, want))
        if not isinstance(bm, str):
            for rec in ("right", "left"):
                g = _call(lambda: bm.to_cfg(recursion=rec))
                have = grammar_table(g)
                evals += 1
                if have != want:
                    fails.append(_fail(f"to_bytes().to_cfg({rec}) preserves every byte string weight", dict(inp0, naming=nname, recursion=rec), have, want))
    return {"evals": evals, "nontrivial": int(bool(want)), "fails": fails, "counters": {"executions": evals}}


def run_merge(case):
    A = fsm.ops_from_json(case["A"])
    B = fsm.ops_from_json(case["B"])
    # degree budget on arcs: initial and final weights are one
    WA = fsm.arc_weights(A, unit=("I", "F"))
    WB = fsm.arc_weights(B, offset=len(A), unit=("I", "F"))
    tA = byte_image(clean(paths(fsm.data(A, WA))))
    tB = byte_image(clean(paths(fsm.data(B, WB))))
    want = {}
    for u, wu in tA.items():
        for v, wv in tB.items():
            w = wu * wv
            if w != Poly.zero:
                want[u + v] = want[u + v] + w if u + v in want else w
    inp0 = {"A": case["A"], "B": case["B"]}
    fails = []
    evals = 0
    for rec in ("right", "left"):
        a = fsm.build(base.WFSA, Poly, A, WA, names={0: ("A", 0), 1: ("A", 1)})
        b = fsm.build(base.WFSA, Poly, B, WB, names={0: ("B", 0), 1: ("B", 1)})

        def mk():
            ga = a.to_bytes().to_cfg(S="X", recursion=rec)
            gb = b.to_bytes().to_cfg(S="Y", recursion=rec)
            g = CFG(Poly, "S", set(ga.V) | set(gb.V))
            g.add(Poly.one, "S", "X", "Y")
            for r in list(ga) + list(gb):
                g.add(r.w, r.head, *r.body)
            return g

        g = _call(mk)
        have = grammar_table(g)
        evals += 1
        if have != want:
            fails.append(_fail("several converted automata merged into one grammar: weight of the concatenation", dict(inp0, recursion=rec), have, want))
    return {"evals": evals, "nontrivial": int(bool(want)), "fails": fails, "counters": {"executions": evals}}


def run_cfg_bytes(case):
    rules = [(h, tuple(b)) for h, b in case["rules"]]
    V = set(case["terms"])
    tab = enum_derivs(rules, "S", V, Poly.D)
    want = byte_image({y: w for y, w in tab.items() if w != Poly.zero})
    inp0 = {"rules": case["rules"], "terms": case["terms"]}
    fails = []
    g = gram.build(rules, Poly, gram.poly_weights(len(rules)), V=V)
    snapshot = (list(map(repr, g.rules)), set(g.V))
    bg = _call(g.to_bytes)
    have = grammar_table(bg)
    if have != want:
        fails.append(_fail("CFG.to_bytes: byte string weight == total weight of the symbol strings it encodes", inp0, have, want))
    if not isinstance(bg, str):
        if not all(isinstance(x, int) and 0 <= x < 256 for x in bg.V):
            fails.append(_fail("CFG.to_bytes: vocabulary consists of byte values", inp0, sorted(map(repr, bg.V)), "ints in 0..255"))
        used = {y for r in bg.rules for y in r.body if isinstance(y, int)}
        if not used <= set(bg.V):
            fails.append(_fail("CFG.to_bytes: every byte used is in the vocabulary", inp0, sorted(used - set(bg.V)), "subset"))
    if (list(map(repr, g.rules)), set(g.V)) != snapshot:
        fails.append(_fail("CFG.to_bytes leaves its argument unchanged", inp0, (g.rules, g.V), snapshot))
    return {"evals": 1, "nontrivial": int(bool(want)), "fails": fails, "counters": {"executions": 1}}


def run_from_string(case):
    fails = []
    evals = 0
    for x in strings_upto(["a", "b"], 3):
        for form in (x, "".join(x)):
            for rec in ("right", "left"):
                for cls, R, one in ((base.WFSA, Poly, Poly.one), (FieldWFSA, Float, 1)):
                    m = cls.from_string(form, R)
                    g = _call(lambda: m.to_cfg(recursion=rec))
                    for y in strings_upto(["a", "b"], 3):
                        hv = g if isinstance(g, str) else _call(g, y if isinstance(form, tuple) else y)
                        evals += 1
                        want = one if y == x else R.zero
                        if hv != want:
                            fails.append(_fail("from_string(xs).to_cfg() accepts exactly xs", {"xs": form if isinstance(form, str) else list(form), "recursion": rec, "y": list(y), "R": R.__name__}, hv, want))
                            break
    return {"evals": evals, "nontrivial": 1, "fails": fails, "counters": {"executions": evals}}


def run_case(case):
    return {"to_cfg": run_to_cfg, "to_bytes": run_to_bytes, "merge": run_merge, "cfg_bytes": run_cfg_bytes, "from_string": run_from_string}[case["mode"]](case)
