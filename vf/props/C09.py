"""C09 - grammar-transducer composition is relational composition."""
from vf import fsm, gram
from vf.gram import case_rules, case_terms, short
from vf.ref_cfg import NoConvergence, enum_derivs, ref_totals, ref_weight, rules_of
from vf.ref_fsa import paths
from vf.runner import CaseTimeout
from vf.semirings import Poly
from vf.spaces import SHARP, bfs_machines, strings_upto

from genlm.grammar.fst import FST
from genlm.grammar.semiring import Boolean
from genlm.grammar.wfsa import base

ID = "C09"
LEVEL = "model_checking"
TIER = "quick"
EPS = ""
LABELS = [("a", "a"), ("a", "b"), ("b", "a"), ("a", EPS), (EPS, "a"), (EPS, EPS)]
VOFF = 30  # FST indeterminates start here (disjoint from the grammar's)

SHARP_G = ["start-on-rhs", "nullable-unary-cycle", "left-rec+self-unary", "nullable-pair", "right-rec", "left-rec", "anbn", "only-epsilon", "catalan", "palindrome", "empty-language", "body-len-3", "unary-diamond", "duplicate-rule"]
# sharp transducers: op tuples
SHARP_T = {
    "identity": (("I", 0), ("F", 0), ("A", 0, ("a", "a"), 0), ("A", 0, ("b", "b"), 0)),
    "eps-input-loop": (("I", 0), ("F", 0), ("A", 0, ("a", "a"), 0), ("A", 0, (EPS, "b"), 0)),
    "eps-output": (("I", 0), ("F", 0), ("A", 0, ("a", EPS), 0), ("A", 0, ("b", "b"), 0)),
    "eps-eps-loop": (("I", 0), ("F", 0), ("A", 0, ("a", "b"), 0), ("A", 0, (EPS, EPS), 0)),
    "dead-state": (("I", 0), ("F", 0), ("A", 0, ("a", "a"), 0), ("A", 0, ("b", "b"), 1), ("A", 1, ("a", "a"), 1)),
    "two-initial-two-final": (("I", 0), ("I", 1), ("F", 0), ("F", 1), ("A", 0, ("a", "b"), 1), ("A", 1, ("b", "a"), 0)),
    "eps-chain": (("I", 0), ("F", 1), ("A", 0, (EPS, "a"), 1), ("A", 1, ("a", EPS), 0), ("A", 1, (EPS, EPS), 1)),
    "swap-then-copy": (("I", 0), ("F", 1), ("A", 0, ("a", "b"), 1), ("A", 1, ("a", "a"), 1), ("A", 1, ("b", "b"), 1)),
    "empty": (),
    "no-final": (("I", 0), ("A", 0, ("a", "a"), 0)),
}


def cfgp():
    if TIER == "thorough":
        return dict(D=6, gdepth=2, tarcs1=3, tarcs2=2, ylen=3)
    return dict(D=5, gdepth=2, tarcs1=2, tarcs2=2, ylen=2)


def init_worker(tier):
    global TIER
    TIER = tier
    Poly.D = cfgp()["D"]


def plan(tier, seed):
    global TIER
    TIER = tier
    p = cfgp()
    t1, tr1 = bfs_machines(1, LABELS, p["tarcs1"])
    t2, tr2 = bfs_machines(2, LABELS, p["tarcs2"])
    T = [o for o in t1 + t2 if any(x[0] == "I" for x in o) and any(x[0] == "F" for x in o)]
    sharp = {n: r for n, r in SHARP}
    cases = []
    for gname in SHARP_G:
        for ops in T:
            if tier != "thorough" and len(ops) > 5:
                continue
            cases.append({"mode": "gt", "gname": gname, "rules": [[h, list(b)] for h, b in sharp[gname]], "T": fsm.ops_json(ops)})
    base_g, gs, gt = gram.grammar_cases(p["gdepth"], with_sharp=False)
    for c in base_g:
        for tname, ops in SHARP_T.items():
            cases.append({"mode": "gt", "gname": "bfs", "rules": c["rules"], "T": fsm.ops_json(ops), "tname": tname})
        cases.append({"mode": "acc", "rules": c["rules"]})
        # symbols that are falsy Python values (0, as in byte-level grammars): the same spaces with a->0, b->1
        cases.append({"mode": "acc", "rules": c["rules"], "ints": True})
        for tname in ("identity", "eps-output", "eps-input-loop", "swap-then-copy"):
            cases.append({"mode": "gt", "gname": "bfs", "rules": c["rules"], "T": fsm.ops_json(SHARP_T[tname]), "tname": tname, "ints": True})
    for gname in SHARP_G:
        cases.append({"mode": "acc", "rules": [[h, list(b)] for h, b in sharp[gname]]})
        cases.append({"mode": "acc", "rules": [[h, list(b)] for h, b in sharp[gname]], "ints": True})
    return {
        "cases": cases,
        "states": len(t1) + len(t2) + gs + len(SHARP_G) + len(SHARP_T),
        "transitions": tr1 + tr2 + gt + len(cases),
        "chunk": 40,
        "rule": (
            f"E1 product space: {len(SHARP_G)} sharp grammars x every transducer reachable by add_I/add_F/add_arc (labels {LABELS}; 1 state <= {p['tarcs1']} arcs, 2 states <= {p['tarcs2']} arcs), and every grammar reachable by <= {p['gdepth']} add-rule operations "
            f"x {len(SHARP_T)} sharp transducers (epsilon input / output / epsilon:epsilon loop, dead state, several initial and final states); both argument orders (cfg @ fst and fst.T @ cfg ... i.e. FST.__matmul__ with a CFG); disjoint free indeterminates (Poly_D, D={p['D']}). "
            f"Oracle: sum_x R1[x] * R4[x,y] compared with the reference fixed-point evaluation of the composed grammar on every output string <= {p['ylen']}. acc mode: cfg @ string, cfg @ acceptor (pointwise product, treesum == cfg(x)), truncate_length(n) for n <= 3. "
            "non-trivial = the composition assigns non-zero weight to some output string within the bound"
        ),
        "bounds": {k: v for k, v in p.items()},
        "assumptions": ["modulo degree > D (grammar and transducer indeterminates together)"],
    }


def _fail(pred, inp, obs, exp):
    return {"pred": pred, "input": inp, "observed": short(obs), "expected": short(exp)}


def _call(f, *a):
    try:
        return f(*a)
    except CaseTimeout:
        raise
    except Exception as e:  # noqa: BLE001
        return f"EXC {type(e).__name__}: {e}"


def eval_grammar(g, y):
    if isinstance(g, str):
        return g
    try:
        return ref_weight(rules_of(g), g.S, g.V, Poly, tuple(y), maxit=80)
    except NoConvergence:
        return "reference evaluation of the composed grammar does not stabilise"


IMAP = {"a": 0, "b": 1}


def to_ints(rules, V):
    m = dict(IMAP)
    for k, t in enumerate(sorted(set(V) - set(IMAP)), start=2):
        m[t] = k
    return [(h, tuple(m.get(y, y) for y in b)) for h, b in rules], {m[t] for t in V}, m


def run_gt(case):
    p = cfgp()
    rules = case_rules(case)
    V = case_terms(case)
    ops = fsm.ops_from_json(case["T"])
    if case.get("ints"):
        rules, V, m = to_ints(rules, V)
        ops = tuple(o if o[0] != "A" else ("A", o[1], (m.get(o[2][0], o[2][0]), m.get(o[2][1], o[2][1])), o[3]) for o in ops)
    tabG = enum_derivs(rules, "S", V, Poly.D)
    if sum(1 for o in ops if o[0] == "A") >= 2:
        WT = fsm.arc_weights(ops, offset=VOFF, unit=("I", "F"))  # degree budget on arcs and grammar rules
    else:
        WT = fsm.poly_weights(len(ops), offset=VOFF)
    tabT = paths(fsm.data(ops, WT), fst=True)
    want = {}
    for (x, y), wt in tabT.items():
        wg = tabG.get(x)
        if wg is None:
            continue
        w = wg * wt
        if w == Poly.zero:
            continue
        want[y] = want[y] + w if y in want else w
    inp0 = {"rules": case["rules"], "T": case["T"]}
    fails = []
    evals = 0
    nz = 0
    outs = sorted({b for o in ops if o[0] == "A" for b in (o[2][1],) if b != EPS} | ({0} if case.get("ints") else {"a"}), key=repr)
    orders = ["cfg@fst", "fst.T@cfg"]
    if fsm.no_repeats(ops) and len(ops) <= 5:
        orders.append("cfg@fst(set_*)")  # the same transducer built through the public set_I / set_F / set_arc
    for order in orders:
        g = gram.build(rules, Poly, gram.poly_weights(len(rules)), V=V)
        t = fsm.build(FST, Poly, ops, WT, use_set=order.endswith("(set_*)"))
        if order.startswith("cfg@fst"):
            comp = _call(lambda: g @ t)
        else:
            comp = _call(lambda: t.T @ g)
        for y in strings_upto(outs, p["ylen"]):
            w = want.get(y, Poly.zero)
            if w != Poly.zero:
                nz += 1
            have = eval_grammar(comp, y)
            evals += 1
            if not (isinstance(have, Poly) and have == w):
                fails.append(_fail(f"({order})(y) == sum_x cfg(x)*fst(x,y)", dict(inp0, order=order, y=list(y)), have, w))
                break
        if not isinstance(comp, str) and order == "cfg@fst" and (case.get("tname") or len(ops) <= 3):
            # second step on the RESULT (non-initial state): truncation and a further composition
            if EPS in comp.V:
                fails.append(_fail("vocabulary of the composed grammar excludes epsilon", dict(inp0, order=order), sorted(map(repr, comp.V)), "no epsilon"))
            tr = _call(comp.truncate_length, 1)
            for y in strings_upto(outs, p["ylen"]):
                w = want.get(y, Poly.zero) if len(y) <= 1 else Poly.zero
                have = eval_grammar(tr, y)
                evals += 1
                if not (isinstance(have, Poly) and have == w):
                    fails.append(_fail("(cfg@fst).truncate_length(n) keeps exactly the strings <= n", dict(inp0, n=1, y=list(y)), have, w))
                    break
            for y in list(strings_upto(outs, 2))[:5]:
                c2 = _call(lambda: comp @ tuple(y))
                have = c2 if isinstance(c2, str) else _call(c2.treesum)
                evals += 1
                w = want.get(tuple(y), Poly.zero)
                if not (isinstance(have, Poly) and have == w):
                    fails.append(_fail("treesum((cfg@fst) @ y) == (cfg@fst)(y)", dict(inp0, y=list(y)), have, w))
                    break
        if not isinstance(comp, str) and order == "cfg@fst":
            # the library's own evaluation of the composed grammar on one string
            for y in list(strings_upto(outs, 1)):
                have = _call(comp, y)
                evals += 1
                w = want.get(y, Poly.zero)
                if not (isinstance(have, Poly) and have == w):
                    fails.append(_fail("(cfg@fst)(y) via the library's parser", dict(inp0, y=list(y)), have, w))
                    break
    return {"evals": evals, "nontrivial": int(nz > 0), "fails": fails, "counters": {"executions": evals}}


def run_acc(case):
    rules = case_rules(case)
    V = case_terms(case)
    A, B = "a", "b"
    if case.get("ints"):
        rules, V, _m = to_ints(rules, V)
        A, B = 0, 1
    tabG = enum_derivs(rules, "S", V, Poly.D)
    inp0 = {"rules": case["rules"], "ints": bool(case.get("ints"))}
    fails = []
    evals = 0
    W = gram.poly_weights(len(rules))
    for x in strings_upto(sorted(V, key=repr), 2):
        want = tabG.get(x, Poly.zero)
        for form in ((x, "".join(x)) if not case.get("ints") else (x,)):
            g = gram.build(rules, Poly, W, V=V)
            comp = _call(lambda: g @ form)
            have = comp if isinstance(comp, str) else _call(comp.treesum)
            evals += 1
            if not (isinstance(have, Poly) and have == want):
                fails.append(_fail("treesum(cfg @ x) == cfg(x)", dict(inp0, x=list(x), form=type(form).__name__), have, want))
            if not isinstance(comp, str):
                for y in strings_upto(sorted(V, key=repr), 2):
                    hv = eval_grammar(comp, y)
                    evals += 1
                    w = want if y == x else Poly.zero
                    if not (isinstance(hv, Poly) and hv == w):
                        fails.append(_fail("(cfg @ x)(y) is the pointwise product", dict(inp0, x=list(x), y=list(y)), hv, w))
                        break
    # weighted acceptor: pointwise product
    acc_ops = (("I", 0), ("F", 0), ("F", 1), ("A", 0, A, 1), ("A", 1, B, 0), ("A", 1, EPS, 1), ("A", 0, A, 0))
    WA = fsm.poly_weights(len(acc_ops), offset=VOFF)
    tabA = paths(fsm.data(acc_ops, WA))
    g = gram.build(rules, Poly, W, V=V)
    comp = _call(lambda: g @ fsm.build(base.WFSA, Poly, acc_ops, WA))
    for y in strings_upto(sorted(V, key=repr), 3 if len(V) <= 2 else 2):
        w = tabG.get(y, Poly.zero) * tabA.get(y, Poly.zero)
        hv = eval_grammar(comp, y)
        evals += 1
        if not (isinstance(hv, Poly) and hv == w):
            fails.append(_fail("(cfg @ acceptor)(y) == cfg(y)*acceptor(y)", dict(inp0, y=list(y)), hv, w))
            break
    # length truncation
    for n in (0, 1, 2, 3):
        g = gram.build(rules, Poly, W, V=V)
        tr = _call(g.truncate_length, n)
        for y in strings_upto(sorted(V, key=repr), 4 if len(V) <= 2 else 3):
            w = tabG.get(y, Poly.zero) if len(y) <= n else Poly.zero
            hv = eval_grammar(tr, y)
            evals += 1
            if not (isinstance(hv, Poly) and hv == w):
                fails.append(_fail("truncate_length(n) keeps exactly the strings <= n with unchanged weights", dict(inp0, n=n, y=list(y)), hv, w))
                break
    return {"evals": evals, "nontrivial": int(any(w != Poly.zero for w in tabG.values())), "fails": fails, "counters": {"executions": evals}}


def run_case(case):
    return {"gt": run_gt, "acc": run_acc}[case["mode"]](case)
