"""Enumerators of the bounded input spaces (E1: BFS over builder operations)."""
import itertools
from collections import deque


# ---------------------------------------------------------------------------
# Grammars


def rule_alphabet(heads=("S", "A"), terms=("a", "b"), maxbody=2):
    syms = tuple(heads) + tuple(terms)
    ops = []
    for h in heads:
        for k in range(maxbody + 1):
            for b in itertools.product(syms, repeat=k):
                ops.append((h, b))
    return ops


def _swap_map(terms, heads):
    """Symmetries the library cannot observe except through iteration order:
    permutations of the terminal names and of the non-start nonterminals."""
    maps = []
    for tp in itertools.permutations(terms):
        for hp in itertools.permutations(heads[1:]):
            m = dict(zip(terms, tp))
            m.update(zip(heads[1:], hp))
            m[heads[0]] = heads[0]
            maps.append(m)
    return maps


def bfs_rule_sets(ops, depth, heads, terms, multiset=True, symmetry=True):
    """Breadth-first search over builder-operation sequences `cfg.add(rule)`.

    A state is the sorted multiset of rules added so far (canonical form: the
    minimum over the unobservable symmetries).  Returns (states, transitions)
    where states is the list of canonical states in BFS order."""
    maps = _swap_map(terms, heads) if symmetry else [None]
    index = {op: i for i, op in enumerate(ops)}

    def canon(state):
        best = state
        for m in maps[1:] if symmetry else ():
            img = tuple(
                sorted(index[(m[h], tuple(m[y] for y in b))] for (h, b) in (ops[i] for i in state))
            )
            if img < best:
                best = img
        return best

    seen = {()}
    order = [()]
    frontier = deque([()])
    transitions = 0
    while frontier:
        st = frontier.popleft()
        if len(st) >= depth:
            continue
        for i in range(len(ops)):
            if not multiset and i in st:
                continue
            if multiset and st.count(i) >= 2:
                continue
            transitions += 1
            nxt = canon(tuple(sorted(st + (i,))))
            if nxt not in seen:
                seen.add(nxt)
                order.append(nxt)
                frontier.append(nxt)
    return order, transitions


def grammar_states(tier_depth, heads=("S", "A"), terms=("a", "b"), maxbody=2, **kw):
    ops = rule_alphabet(heads, terms, maxbody)
    states, transitions = bfs_rule_sets(ops, tier_depth, heads, terms, **kw)
    return ops, states, transitions


def strings_upto(alphabet, n):
    alphabet = tuple(alphabet)
    for k in range(n + 1):
        yield from itertools.product(alphabet, repeat=k)


# Sharp grammars: one per shortcut visible in the code.  (name, rules); start 'S';
# terminals are the lowercase symbols.
SHARP = [
    ("unary-chain+binary-reuse", [("S", ("A", "B")), ("A", ("a",)), ("A", ("A", "a")), ("B", ("C",)), ("C", ("b",)), ("B", ("A", "B"))]),
    ("start-on-rhs", [("S", ("S", "S")), ("S", ("a",)), ("S", ())]),
    ("nullable-unary-cycle", [("S", ("A",)), ("A", ("S",)), ("S", ("a",)), ("A", ()), ("S", ("A", "b", "A"))]),
    ("left-rec+self-unary", [("S", ("S", "a")), ("S", ("b",)), ("S", ("S",))]),
    ("non-generating-start", [("S", ("S",))]),
    ("dead-sibling", [("S", ("a",)), ("S", ("A", "B")), ("A", ("a",)), ("B", ("B",))]),
    ("useless-sibling", [("S", ("a",)), ("A", ("b",)), ("B", ("S", "B"))]),
    ("duplicate-rule", [("S", ("a",)), ("S", ("a",)), ("S", ("S", "b"))]),
    ("repeated-symbol", [("S", ("A", "A")), ("A", ("a",)), ("A", ("S", "b")), ("A", ()), ("S", ("S",))]),
    ("triple-repeat", [("S", ("A", "A", "A")), ("A", ("a",)), ("A", ())]),
    ("body-len-3", [("S", ("a", "S", "b")), ("S", ("A", "A", "a")), ("A", ()), ("A", ("b",))]),
    ("body-len-4", [("S", ("A", "b", "A", "S")), ("S", ("a",)), ("A", ()), ("A", ("a", "A"))]),
    ("three-preterminals", [("S", ("a",)), ("S", ("S", "X")), ("S", ("S", "Y")), ("S", ("S", "Z")), ("X", ("b",)), ("Y", ("b",)), ("Z", ("b",))]),
    ("unary-diamond", [("S", ("A",)), ("S", ("B",)), ("A", ("C",)), ("B", ("C",)), ("C", ("a",)), ("C", ("C", "b"))]),
    ("two-sccs", [("S", ("A", "B")), ("A", ("a", "A")), ("A", ()), ("B", ("b", "B")), ("B", ("b",))]),
    ("mutual-recursion", [("S", ("A",)), ("A", ("a", "B")), ("B", ("b", "A")), ("B", ("b",)), ("A", ("a",))]),
    ("palindrome", [("S", ("a", "S", "a")), ("S", ("b", "S", "b")), ("S", ()), ("S", ("a",)), ("S", ("b",))]),
    ("catalan", [("S", ("S", "S")), ("S", ("a",))]),
    ("right-rec", [("S", ("a", "S")), ("S", ("a",))]),
    ("left-rec", [("S", ("S", "a")), ("S", ("a",))]),
    ("anbn", [("S", ("a", "S", "b")), ("S", ())]),
    ("empty-language", []),
    ("only-epsilon", [("S", ())]),
    ("nullable-pair", [("S", ("A", "B")), ("A", ()), ("A", ("a",)), ("B", ()), ("B", ("b",))]),
    ("unary-cycle-3", [("S", ("A",)), ("A", ("B",)), ("B", ("S",)), ("B", ("a",)), ("S", ("b", "S"))]),
    ("hidden-left-rec", [("S", ("A", "S", "a")), ("A", ()), ("S", ("b",))]),
    ("unary-to-terminal-mix", [("S", ("A",)), ("A", ("a",)), ("A", ("A", "A")), ("S", ("b",))]),
    ("epsilon-and-unary-self", [("S", ("S",)), ("S", ()), ("S", ("a", "S"))]),
    ("deep-unary-chain", [("S", ("A",)), ("A", ("B",)), ("B", ("C",)), ("C", ("a",)), ("C", ("a", "S"))]),
    ("useless-cycle", [("S", ("a",)), ("A", ("B",)), ("B", ("A",)), ("S", ("S", "A"))]),
    ("terminal-in-long-body", [("S", ("a", "b", "a")), ("S", ("a", "A", "a")), ("A", ("b",)), ("A", ("A", "b"))]),
    ("scc3-chord", [("S", ("a", "A")), ("A", ("a", "B")), ("B", ("a", "S")), ("B", ("b", "A")), ("S", ("a",)), ("A", ("b",))]),
    ("scc3-chord-unary", [("S", ("A",)), ("A", ("B",)), ("B", ("S",)), ("B", ("A",)), ("S", ("a",)), ("B", ("b", "S"))]),
    ("two-unary-cycles", [("S", ("S",)), ("A", ("A",)), ("S", ("A",)), ("A", ("a",)), ("S", ("b",))]),
    ("two-unary-sccs-linked", [("S", ("A",)), ("A", ("S",)), ("B", ("C",)), ("C", ("B",)), ("A", ("B",)), ("C", ("a",)), ("S", ("b",))]),
    ("left-corner-cycle-3", [("S", ("A",)), ("A", ("B", "a")), ("B", ("C", "b")), ("C", ("A", "a")), ("C", ("b",)), ("A", ("a",))]),
    ("cancel-pqr", [("S", ("P", "b")), ("S", ("Q", "b")), ("S", ("R", "b")), ("P", ("a",)), ("Q", ("a",)), ("R", ("a",))]),
    ("cancel-3", [("A", ("a",)), ("A", ("a",)), ("A", ("a",)), ("S", ("A", "b")), ("S", ("A", "a"))]),
    ("cancel-3-unary", [("A", ("B",)), ("A", ("B",)), ("A", ("B",)), ("B", ("a",)), ("S", ("A", "b")), ("S", ("a", "A"))]),
    ("name-concat", [("S", ("AB", "C", "b")), ("S", ("A", "BC", "b")), ("AB", ("a",)), ("C", ("a",)), ("A", ("b",)), ("BC", ("b",))]),
    ("nullable-start-rhs", [("S", ("S", "A")), ("S", ()), ("A", ("a",)), ("A", ())]),
]


def sharp_terms(rules):
    t = set()
    for h, b in rules:
        for y in b:
            if y[0].islower():
                t.add(y)
    return t | {"a", "b"}


# ---------------------------------------------------------------------------
# Automata / transducers: BFS over builder operations add_I / add_F / add_arc


def machine_ops(nstates, labels):
    ops = [("I", q) for q in range(nstates)] + [("F", q) for q in range(nstates)]
    ops += [("A", i, l, j) for i in range(nstates) for l in labels for j in range(nstates)]
    return ops


def bfs_machines(nstates, labels, max_arcs, max_mult=2, symmetry=True):
    """States = sorted multiset of builder ops (add_I / add_F at most once per state,
    arcs with multiplicity <= max_mult), canonical up to renaming of the states.
    Returns (list of canonical op-tuples, transitions)."""
    ops = machine_ops(nstates, labels)
    perms = list(itertools.permutations(range(nstates))) if symmetry else [tuple(range(nstates))]

    def key(op):
        return (0 if op[0] == "I" else 2 if op[0] == "F" else 1,) + tuple(repr(x) for x in op[1:])

    def canon(st):
        best = None
        for p in perms:
            img = tuple(
                sorted(
                    ((o[0], p[o[1]]) if o[0] != "A" else ("A", p[o[1]], o[2], p[o[3]]) for o in st),
                    key=key,
                )
            )
            kk = tuple(key(o) for o in img)
            if best is None or kk < best[0]:
                best = (kk, img)
        return best[1]

    seen = {()}
    order = [()]
    frontier = deque([()])
    transitions = 0
    while frontier:
        st = frontier.popleft()
        narcs = sum(1 for o in st if o[0] == "A")
        for op in ops:
            if op[0] == "A":
                if narcs >= max_arcs or st.count(op) >= max_mult:
                    continue
            elif op in st:
                continue
            transitions += 1
            nxt = canon(st + (op,))
            if nxt not in seen:
                seen.add(nxt)
                order.append(nxt)
                frontier.append(nxt)
    return order, transitions


def all_graphs(n):
    """Every directed graph on nodes 0..n-1 (self loops allowed): BFS over G[i,j]=w."""
    pairs = [(i, j) for i in range(n) for j in range(n)]
    for k in range(len(pairs) + 1):
        for es in itertools.combinations(pairs, k):
            yield es
