"""E2: stateless choice-point scheduler with an iterated deviation bound.

The code under test runs to completion; at every choice point the hooked
container asks `choose(n)` for one of its n enabled alternatives (alternative 0
= default behaviour).  `explore` enumerates every execution that departs from
the default at no more than `bound` choice points (deviation-bounded DFS).
"""


class Divergence(Exception):
    pass


class Sched:
    def __init__(self, prefix=()):
        self.prefix = list(prefix)
        self.trace = []  # (choice, nalts)

    def choose(self, n):
        if n <= 1:
            return 0
        k = len(self.trace)
        c = self.prefix[k] if k < len(self.prefix) else 0
        if c >= n:
            raise Divergence(f"replay diverged at choice point {k}: want {c} of {n}")
        self.trace.append((c, n))
        return c


CURRENT = None  # the active Sched, or None (then containers behave by default)


def choose(n):
    if CURRENT is None:
        return 0
    return CURRENT.choose(n)


def explore(run, bound, max_exec=20000):
    """run(): executes the code under test, returns a hashable/repr-able outcome.
    Returns dict(outcomes={repr: [prefixes]}, executions, choice_points, max_branch, capped)."""
    global CURRENT
    outcomes = {}
    nexec = 0
    cps = 0
    maxbr = 0
    capped = False
    stack = [([], 0)]
    while stack:
        if nexec >= max_exec:
            capped = True
            break
        prefix, dev = stack.pop()
        CURRENT = Sched(prefix)
        try:
            out = run()
        finally:
            tr = CURRENT.trace
            CURRENT = None
        nexec += 1
        if len(tr) < len(prefix):
            raise Divergence("execution shorter than its replay prefix")
        cps = max(cps, len(tr))
        outcomes.setdefault(out, []).append(list(prefix))
        for i in range(len(prefix), len(tr)):
            c, n = tr[i]
            maxbr = max(maxbr, n)
            if dev + 1 > bound:
                break
            for alt in range(1, n):
                stack.append(([t[0] for t in tr[:i]] + [alt], dev + 1))
    return {"outcomes": outcomes, "executions": nexec, "choice_points": cps, "max_branch": maxbr, "capped": capped}


def replay(run, prefix):
    global CURRENT
    CURRENT = Sched(prefix)
    try:
        return run(), list(CURRENT.trace)
    finally:
        CURRENT = None


class ChoiceHeap:
    """Drop-in for arsenal's LocatorMaxHeap as used by the Earley parsers:
    `Q[k] = priority`, `bool(Q)`, `Q.pop() -> (k, priority)`; ties between
    maximal-priority keys are resolved by the scheduler (alternative 0 = oldest)."""

    def __init__(self):
        self.d = {}

    def __setitem__(self, k, v):
        self.d[k] = v

    def __len__(self):
        return len(self.d)

    def __bool__(self):
        return bool(self.d)

    def __contains__(self, k):
        return k in self.d

    def pop(self):
        m = max(self.d.values())
        c = [k for k, v in self.d.items() if v == m]
        k = c[choose(len(c))]
        return k, self.d.pop(k)


def install_heap():
    """Route both Earley modules' agenda through the scheduler (module globals are
    looked up at call time by next_column / Column.__init__)."""
    from genlm.grammar.parse import earley, earley_rescaled

    earley.LocatorMaxHeap = ChoiceHeap
    earley_rescaled.LocatorMaxHeap = ChoiceHeap


def uninstall_heap():
    from arsenal.datastructures.heap import LocatorMaxHeap
    from genlm.grammar.parse import earley, earley_rescaled

    earley.LocatorMaxHeap = LocatorMaxHeap
    earley_rescaled.LocatorMaxHeap = LocatorMaxHeap
