"""Weight domains used by the explorers.

Poly : truncated free commutative semiring  N[x_1..x_k] / (degree > D).
       Rule r (arc r, edge r) gets the indeterminate x_r.  Truncation is a
       semiring homomorphism, so an algebraically correct algorithm must return
       exactly the truncated generating series of derivations / paths: the
       coefficient of a monomial is the number of derivation trees using exactly
       that multiset of rules.
Q    : exact rational field as a genlm Semiring subclass (hashable, ** -1).
"""
from fractions import Fraction

from vf import REPO  # noqa: F401  (sets sys.path)
from genlm.grammar.chart import Chart
from genlm.grammar.semiring import Semiring


class _PolyMeta(type):
    pass


class Poly(metaclass=_PolyMeta):
    __slots__ = ("t",)  # dict: monomial (sorted tuple of var ids) -> coefficient
    D = 5

    def __init__(self, t=None):
        self.t = t or {}

    @classmethod
    def var(cls, i):
        return cls({(i,): 1})

    @classmethod
    def const(cls, c):
        return cls({(): c}) if c else cls()

    def __add__(self, o):
        if not isinstance(o, Poly):
            return NotImplemented
        t = dict(self.t)
        for m, c in o.t.items():
            t[m] = t.get(m, 0) + c
        return Poly(t)

    def __mul__(self, o):
        if not isinstance(o, Poly):
            return NotImplemented
        D = Poly.D
        t = {}
        for m1, c1 in self.t.items():
            l1 = len(m1)
            for m2, c2 in o.t.items():
                if l1 + len(m2) > D:
                    continue
                m = tuple(sorted(m1 + m2))
                t[m] = t.get(m, 0) + c1 * c2
        return Poly(t)

    def __eq__(self, o):
        return isinstance(o, Poly) and self.t == o.t

    def __ne__(self, o):
        return not self == o

    def __hash__(self):
        return hash(frozenset(self.t.items()))

    def star(self):
        if () in self.t:
            raise StarDiverges(f"star of a series with constant term: {self}")
        out = Poly.one
        p = Poly.one
        for _ in range(Poly.D):
            p = p * self
            if not p.t:
                break
            out = out + p
        return out

    def metric(self, o):
        return 0 if self == o else 1

    def __repr__(self):
        if not self.t:
            return "0"
        return " + ".join(
            (f"{c}*" if c != 1 or not m else "") + (".".join(f"x{i}" for i in m) or "1")
            for m, c in sorted(self.t.items())
        )

    def key(self):
        return tuple(sorted(self.t.items()))

    def degree_part(self, pred):
        return Poly({m: c for m, c in self.t.items() if pred(m)})

    @classmethod
    def chart(cls, *a, **k):
        return Chart(cls, *a, **k)


class StarDiverges(ArithmeticError):
    pass


Poly.zero = Poly()
Poly.one = Poly({(): 1})


def psum(ps):
    out = Poly.zero
    for p in ps:
        out = out + p
    return out


class Q(Semiring):
    """Exact rational field (Fraction scores)."""

    __slots__ = ()

    def __init__(self, x):
        super().__init__(Fraction(x))

    def __add__(self, o):
        if not isinstance(o, Q):
            return NotImplemented
        return Q(self.score + o.score)

    def __mul__(self, o):
        if not isinstance(o, Q):
            return NotImplemented
        return Q(self.score * o.score)

    def __pow__(self, k):
        return Q(self.score**k)

    def __eq__(self, o):
        return isinstance(o, Q) and self.score == o.score

    def __hash__(self):
        return hash(self.score)

    def star(self):
        if self.score == 1:
            raise StarDiverges("star(1)")
        return Q(1 / (1 - self.score))

    def metric(self, o):
        return abs(self.score - o.score)

    def __repr__(self):
        return str(self.score)


Q.zero = Q(0)
Q.one = Q(1)


class NCPoly:
    """Truncated free NON-commutative semiring N<x_1..x_k> / (length > D): formal sums of words.
    Multiplication concatenates, so the order of factors is observable."""

    __slots__ = ("t",)
    D = 5

    def __init__(self, t=None):
        self.t = t or {}

    @classmethod
    def var(cls, i):
        return cls({(i,): 1})

    def __add__(self, o):
        if not isinstance(o, NCPoly):
            return NotImplemented
        t = dict(self.t)
        for m, c in o.t.items():
            t[m] = t.get(m, 0) + c
        return NCPoly(t)

    def __mul__(self, o):
        if not isinstance(o, NCPoly):
            return NotImplemented
        D = NCPoly.D
        t = {}
        for m1, c1 in self.t.items():
            for m2, c2 in o.t.items():
                if len(m1) + len(m2) > D:
                    continue
                m = m1 + m2
                t[m] = t.get(m, 0) + c1 * c2
        return NCPoly(t)

    def __eq__(self, o):
        return isinstance(o, NCPoly) and self.t == o.t

    def __ne__(self, o):
        return not self == o

    def __hash__(self):
        return hash(frozenset(self.t.items()))

    def star(self):
        if () in self.t:
            raise StarDiverges("star of a series with constant term")
        out = NCPoly.one
        p = NCPoly.one
        for _ in range(NCPoly.D):
            p = p * self
            if not p.t:
                break
            out = out + p
        return out

    def metric(self, o):
        return 0 if self == o else 1

    def __repr__(self):
        if not self.t:
            return "0"
        return " + ".join((f"{c}*" if c != 1 or not m else "") + ("".join(f"<{i}>" for i in m) or "1") for m, c in sorted(self.t.items()))

    @classmethod
    def chart(cls, *a, **k):
        return Chart(cls, *a, **k)


NCPoly.zero = NCPoly()
NCPoly.one = NCPoly({(): 1})
