"""Shared helpers: build real WFSA / FST objects from enumerated op-tuples."""
from fractions import Fraction

from vf.semirings import Poly

FRAC = [Fraction(1, 2), Fraction(1, 3), Fraction(1, 5), Fraction(2, 7), Fraction(1, 4), Fraction(3, 10), Fraction(2, 5), Fraction(1, 6)]


def build(cls, R, ops, weights, names=None, use_set=False):
    """ops: canonical tuple of ('I',q) / ('F',q) / ('A',i,label,j); weights[k] for op k.
    use_set=True builds through the public set_I / set_F / set_arc (only meaningful when no
    operation occurs twice, since set_* overwrites)."""
    f = (lambda q: names[q]) if names is not None else (lambda q: q)
    m = cls(R)
    for op, w in zip(ops, weights):
        if op[0] == "I":
            (m.set_I if use_set else m.add_I)(f(op[1]), w)
        elif op[0] == "F":
            (m.set_F if use_set else m.add_F)(f(op[1]), w)
        else:
            (m.set_arc if use_set else m.add_arc)(f(op[1]), op[2], f(op[3]), w)
    return m


def no_repeats(ops):
    return len(set(ops)) == len(ops)


def data(ops, weights, names=None):
    """Reference-side plain data for the same machine (independent of the library)."""
    f = (lambda q: names[q]) if names is not None else (lambda q: q)
    start, stop, arcs = {}, {}, []
    for op, w in zip(ops, weights):
        if op[0] == "I":
            start[f(op[1])] = start[f(op[1])] + w if f(op[1]) in start else w
        elif op[0] == "F":
            stop[f(op[1])] = stop[f(op[1])] + w if f(op[1]) in stop else w
        else:
            arcs.append((f(op[1]), op[2], f(op[3]), w))
    return start, stop, arcs


def poly_weights(n, offset=0):
    return [Poly.var(offset + i) for i in range(n)]


def ops_json(ops):
    return [list(o) if o[0] != "A" or not isinstance(o[2], tuple) else [o[0], o[1], list(o[2]), o[3]] for o in ops]


def ops_from_json(j):
    out = []
    for o in j:
        if o[0] == "A":
            lab = tuple(o[2]) if isinstance(o[2], list) else o[2]
            out.append(("A", o[1], lab, o[3]))
        else:
            out.append((o[0], o[1]))
    return tuple(out)


def arc_weights(ops, offset=0, unit=("I",)):
    """Indeterminates on arcs (and final weights); initial weights are the semiring
    one so that the degree budget D is spent on arcs: a pair of paths with k1 + k2
    arcs has degree k1 + k2 + 2 instead of k1 + k2 + 4."""
    out = []
    k = offset
    for o in ops:
        if o[0] in unit:
            out.append(Poly.one)
        else:
            out.append(Poly.var(k))
            k += 1
    return out
