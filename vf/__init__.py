"""Model-checking machinery for genlm-grammar (see /verif/DESIGN.md).

Everything here runs the *real* implementation found in /repo's working tree.
"""
import os
import sys
import warnings

REPO = os.environ.get("VERIF_REPO", "/repo")
if REPO not in sys.path:
    sys.path.insert(0, REPO)
# instrumentation guard (no source hooks are needed; recorded in MANIFEST.hooks)
os.environ.setdefault("GENLM_GRAMMAR_VERIF", "1")
warnings.filterwarnings("ignore", category=SyntaxWarning)
warnings.filterwarnings("ignore", category=RuntimeWarning)

VERIF = os.path.dirname(os.path.dirname(os.path.abspath(__file__)))
