"""Cross-validation of the reference models (plays the role of the conformance
check between 'model' and 'model'): R1 derivation enumerator, R2 naive fixed
points, R3 Boolean set oracle must agree with each other on the base space."""
import time

from vf import gram
from vf.ref_cfg import (
    enum_derivs, member, ref_prefix_weight, ref_totals, ref_weight, table_prefix, table_total, viable_prefix, brute_language,
)
from vf.semirings import Poly
from vf.spaces import strings_upto

from genlm.grammar.semiring import Boolean


def check_cfg_oracles(depth=2, maxlen=3, verbose=False):
    Poly.D = 5
    cases, _, _ = gram.grammar_cases(depth)
    bad = []
    n = 0
    for c in cases:
        rules = gram.case_rules(c)
        if len(rules) > 5:
            continue
        V = gram.case_terms(c)
        table = enum_derivs(rules, "S", V, Poly.D)
        W = gram.poly_weights(len(rules))
        prules = [(w, h, b) for w, (h, b) in zip(W, rules)]
        brules = [(Boolean.one, h, b) for h, b in rules]
        tot = ref_totals(prules, V, Poly)
        if tot.get("S", Poly.zero) != table_total(table):
            bad.append(("totals", c["rules"]))
        lang = brute_language(rules, "S", V, maxlen)
        for x in strings_upto(sorted(V), maxlen if len(V) <= 2 else 2):
            n += 1
            want = table.get(x, Poly.zero)
            if ref_weight(prules, "S", V, Poly, x) != want:
                bad.append(("R2!=R1", c["rules"], x))
            mb = member(rules, "S", V, x)
            if Boolean(mb) != ref_weight(brules, "S", V, Boolean, x):
                bad.append(("R3!=R2bool", c["rules"], x))
            if want != Poly.zero and not mb:
                bad.append(("R1 nonzero but R3 not member", c["rules"], x))
            if (x in lang) and not mb:
                bad.append(("brute member but R3 not", c["rules"], x))
            pw = ref_prefix_weight(prules, "S", V, Poly, x, totals=tot)
            if pw != table_prefix(table, x):
                bad.append(("R2prefix!=R1prefix", c["rules"], x))
            vp = viable_prefix(rules, "S", V, x)
            if Boolean(vp) != ref_prefix_weight(brules, "S", V, Boolean, x):
                bad.append(("R3viable!=R2boolprefix", c["rules"], x))
            if pw != Poly.zero and not vp:
                bad.append(("R1 prefix nonzero but not viable", c["rules"], x))
            if vp != any(y[: len(x)] == x for y in lang) and any(y[: len(x)] == x for y in lang):
                bad.append(("brute viable but R3 not", c["rules"], x))
    if verbose:
        print(f"cfg oracles: {len(cases)} grammars, {n} strings, {len(bad)} disagreements")
    return bad


def run_all(verbose=False):
    t0 = time.time()
    bad = []
    bad += check_cfg_oracles(depth=2, verbose=verbose)
    try:
        from vf import selfchecks_fsa

        bad += selfchecks_fsa.run_all(verbose=verbose)
    except ImportError:
        pass
    if verbose:
        print(f"self-check wall {time.time() - t0:.1f}s")
    return bad[:10]
