#!/usr/bin/env python3
"""Confirm a sub-agent's seeded change independently and file it under /verif/seeded/<name>/.

usage: tools/intake_mutant.py <name> <property> <dir with patch.diff demo.py notes.md> <scratch worktree> [checks to run ...]
Steps (all in the scratch worktree, never in /repo): clean tree -> demo exits 0; apply patch -> suite 97 passed, demo exits non-zero; revert.
Then applies the patch to /repo via tools/try_mutant.py for the listed checks (default: the property's own check) and records which checks caught it.
"""
import json, os, shutil, subprocess, sys, time

VERIF = os.path.dirname(os.path.dirname(os.path.abspath(__file__)))


def sh(cmd, cwd, timeout=1200):
    p = subprocess.run(cmd, cwd=cwd, capture_output=True, text=True, timeout=timeout)
    return p.returncode, (p.stdout + p.stderr)


def main():
    name, prop, src, wt = sys.argv[1:5]
    checks = sys.argv[5:] or [prop]
    patch = os.path.join(src, "patch.diff")
    demo = os.path.join(src, "demo.py")
    env_py = "/venv/bin/python"
    meta = {"name": name, "property": prop, "source": "fresh sub-agent given only the property text and a scratch worktree", "confirmed": {}}
    rc, out = sh(["git", "status", "--porcelain", "--untracked-files=no"], wt)
    if out.strip():
        sh(["git", "checkout", "--", "."], wt)
    rc0, out0 = sh([env_py, demo], wt, 600)
    meta["confirmed"]["demo_on_clean_tree_exit"] = rc0
    rc, out = sh(["git", "apply", patch], wt)
    if rc != 0:
        print("patch does not apply in scratch worktree", out[:300])
        return 2
    try:
        rct, outt = sh([env_py, "-m", "pytest", "-q", "-p", "no:cacheprovider", "tests"], wt, 1500)
        tail = [l for l in outt.strip().splitlines() if "passed" in l or "failed" in l][-1:] or [outt[-200:]]
        meta["confirmed"]["suite_with_change"] = tail[0].strip()
        rc1, out1 = sh([env_py, demo], wt, 600)
        meta["confirmed"]["demo_with_change_exit"] = rc1
        meta["confirmed"]["demo_with_change_tail"] = out1.strip().splitlines()[-3:]
    finally:
        sh(["git", "checkout", "--", "."], wt)
    ok = rc0 == 0 and rc1 != 0 and "97 passed" in meta["confirmed"]["suite_with_change"] and "failed" not in meta["confirmed"]["suite_with_change"]
    meta["confirmed"]["valid"] = ok
    print(json.dumps(meta["confirmed"], ensure_ascii=False)[:600])
    if not ok:
        print("NOT VALID - not filed")
        return 1
    p = subprocess.run([os.path.join(VERIF, "tools", "try_mutant.py"), patch] + checks, capture_output=True, text=True, cwd=VERIF, timeout=7200)
    print(p.stdout[-2500:])
    caught = [l for l in p.stdout.splitlines() if l.startswith("CAUGHT-BY:")]
    meta["checks_run"] = checks
    meta["caught_by"] = caught[0].split(":", 1)[1].split() if caught else []
    meta["check_output"] = [l[:400] for l in p.stdout.splitlines() if l[:1] == "C" or l.strip().startswith("violations by")]
    dst = os.path.join(VERIF, "seeded", name)
    os.makedirs(dst, exist_ok=True)
    shutil.copy(patch, os.path.join(dst, "patch.diff"))
    shutil.copy(demo, os.path.join(dst, "demo.py"))
    if os.path.exists(os.path.join(src, "notes.md")):
        shutil.copy(os.path.join(src, "notes.md"), os.path.join(dst, "notes.md"))
        meta["needs_to_manifest"] = "see notes.md (written by the sub-agent)"
    meta["what_i_ran"] = [
        f"scratch worktree {wt}: demo on clean tree; git apply patch.diff; pytest tests (must be 97 passed); demo (must fail); git checkout -- .",
        f"/repo: tools/try_mutant.py patch.diff {' '.join(checks)} (git apply, ./check <id> --tier quick, git checkout -- .)",
    ]
    json.dump(meta, open(os.path.join(dst, "meta.json"), "w"), indent=1, ensure_ascii=False)
    print("filed", dst, "caught_by", meta["caught_by"])
    return 0


if __name__ == "__main__":
    sys.exit(main())
