#!/bin/bash
# usage: tools/sweep.sh <tier> <seed...>   runs every check once per seed; prints one line per check
cd "$(dirname "$0")/.."
tier=$1; shift
for seed in "$@"; do
  for i in $(seq -w 1 20); do
    c=C$i
    s=$(date +%s)
    out=$(VERIF_SEED=$seed timeout 7200 ./check $c --tier $tier 2>&1)
    code=$?
    e=$(( $(date +%s) - s ))
    echo "seed=$seed $c exit=$code ${e}s $(echo "$out" | grep -E "^C[0-9]+ tier" | sed -E 's/.*(cases=[0-9]+).*(violations=[0-9]+).*/\1 \2/')"
    [ $code -ne 0 ] && echo "$out" | grep -E "VIOLATION|INTERNAL|pred=" | head -5 | cut -c1-300
  done
done
echo SWEEPDONE
