#!/usr/bin/env python3
"""Markdown table of the seeded property-breaking changes and which checks catch them."""
import glob, json, os, re
root = os.path.dirname(os.path.dirname(os.path.abspath(__file__)))
rows = []
for f in sorted(glob.glob(os.path.join(root, "seeded", "*", "meta.json"))):
    m = json.load(open(f))
    d = os.path.dirname(f)
    patch = open(os.path.join(d, "patch.diff")).read()
    files = sorted(set(re.findall(r"^\+\+\+ b/(\S+)", patch, re.M)))
    summ = m.get("summary", "")
    rows.append((m["name"], m["property"], ", ".join(x.replace("genlm/grammar/", "") for x in files), summ, ", ".join(m.get("caught_by") or []) or "none", m.get("strengthened", "")))
print("| seeded change | property | file | what it is / what it needs | caught by (quick tier) | note |")
print("|---|---|---|---|---|---|")
for r in rows:
    print("| " + " | ".join(r) + " |")
