#!/usr/bin/env python3
"""Markdown table of the committed evidence files (DESIGN.md section 7.1)."""
import glob, json, os
root = os.path.dirname(os.path.dirname(os.path.abspath(__file__)))
man = json.load(open(os.path.join(root, "MANIFEST.json")))
eng = {c["property_id"]: c["engine"] for c in man["checks"]}
print("| check | engine | tier | cases | states | transitions | executions on the real code | non-trivial | wall |")
print("|---|---|---|---|---|---|---|---|---|")
for f in sorted(glob.glob(os.path.join(root, "evidence", "C*.json"))):
    e = json.load(open(f)); c = e["coverage"]
    print(f"| {e['property_id']} | {eng.get(e['property_id'],'')} | {e['tier']} | {c['cases']:,} | {c['states']:,} | {c['transitions']:,} | {c['traces_validated_against_impl']:,} | {c['distinct_nontrivial']:,} | {e['wall_s']:.0f} s |")
