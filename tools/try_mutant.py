#!/usr/bin/env python3
"""Apply a seeded change to /repo, run the given checks, undo it straight afterwards.

usage: tools/try_mutant.py <patch.diff> [--tier quick] [--timeout 900] C01 C02 ... | all
Prints one line per check: id exit-code first-violation; exit status 0 iff some check caught it.
"""
import json, os, subprocess, sys, time

REPO = os.environ.get("VERIF_REPO", "/repo")
VERIF = os.path.dirname(os.path.dirname(os.path.abspath(__file__)))


def main():
    args = sys.argv[1:]
    patch = os.path.abspath(args.pop(0))
    tier = "quick"
    tmo = 900
    ids = []
    while args:
        a = args.pop(0)
        if a == "--tier":
            tier = args.pop(0)
        elif a == "--timeout":
            tmo = int(args.pop(0))
        elif a == "all":
            ids = [f"C{i:02d}" for i in range(1, 21)]
        else:
            ids.append(a)
    st = subprocess.run(["git", "-C", REPO, "status", "--porcelain", "--untracked-files=no"], capture_output=True, text=True).stdout.strip()
    if st:
        print("refusing: /repo has uncommitted changes:\n" + st)
        return 2
    r = subprocess.run(["git", "-C", REPO, "apply", patch], capture_output=True, text=True)
    if r.returncode != 0:
        print("patch does not apply:", r.stderr[:500])
        return 2
    caught = []
    out = {}
    try:
        for cid in ids:
            t0 = time.time()
            try:
                p = subprocess.run([os.path.join(VERIF, "check"), cid, "--tier", tier], capture_output=True, text=True, timeout=tmo, cwd=VERIF)
                code = p.returncode
                lines = p.stdout.splitlines()
            except subprocess.TimeoutExpired as e:
                code = "timeout"
                lines = (e.stdout or b"").decode(errors="replace").splitlines() if isinstance(e.stdout, bytes) else (e.stdout or "").splitlines()
            vi = next((i for i, l in enumerate(lines) if l.startswith("VIOLATION")), None)
            first = " | ".join(l.strip()[:220] for l in lines[vi : vi + 4]) if vi is not None else ""
            ie = next((l for l in lines if l.startswith("INTERNAL-ERROR")), "")
            preds = next((l.strip() for l in lines if l.strip().startswith("violations by predicate")), "")
            print(f"{cid} exit={code} {time.time()-t0:.0f}s {first or ie[:300]}")
            if preds:
                print("    " + preds[:600])
            out[cid] = {"exit": code, "first": first, "preds": preds}
            if code == 1:
                caught.append(cid)
    finally:
        subprocess.run(["git", "-C", REPO, "checkout", "--", "."], check=True)
        # evidence files were rewritten by runs on a mutated tree: restore the committed ones
        subprocess.run(["git", "-C", VERIF, "checkout", "--", "evidence"], check=False)
    print("CAUGHT-BY:", " ".join(caught) if caught else "none")
    return 0 if caught else 1


if __name__ == "__main__":
    sys.exit(main())
