#!/bin/bash
# Offline setup: nothing to build (pure Python); verify the interpreter, the
# repo import and run the oracle self-checks.
set -e
cd "$(dirname "$0")/.."
export PYTHONDONTWRITEBYTECODE=1 PYTHONWARNINGS=ignore
/venv/bin/python -c "import vf, genlm.grammar, sys; print('genlm.grammar from', genlm.grammar.__file__)"
/venv/bin/python -m vf.selfcheck
