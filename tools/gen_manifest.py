#!/usr/bin/env python3
"""Regenerates MANIFEST.json from tools/manifest_checks.json (keeps it valid at all times)."""
import json, os, subprocess
here = os.path.dirname(os.path.abspath(__file__))
root = os.path.dirname(here)
spec = json.load(open(os.path.join(here, "manifest_checks.json")))
props = [json.loads(l) for l in open(os.path.join(root, "properties.jsonl"))]
checks = []
claimed = set()
for pid, c in sorted(spec["checks"].items()):
    claimed.add(pid)
    checks.append({
        "property_id": pid,
        "quick_cmd": f"./check {pid} --tier quick",
        "thorough_cmd": f"./check {pid} --tier thorough",
        "evidence_file": f"/verif/evidence/{pid}.json",
        "replay_cmd_template": f"./check {pid} --replay {{path}}",
        "engine": c["engine"],
        "level_claimed": {"category": "model_checking", "text": c["text"], "design_ref": c["design_ref"]},
        "level_note": c["note"],
        "technique": c["technique"],
    })
na = [{"property_id": p["id"], "reason": spec["not_applicable"].get(p["id"], "check not built yet in this session (planned, see DESIGN.md section 3)")} for p in props if p["id"] not in claimed]
m = {
    "version": 1,
    "setup_cmd": "./tools/setup.sh",
    "hooks": {
        "guard": "GENLM_GRAMMAR_VERIF",
        "enable": "no source hooks are needed: the explorers replace module globals (LocatorMaxHeap) and pass user semirings from outside; ./check exports GENLM_GRAMMAR_VERIF=1 for uniformity",
        "baseline_off_cmd": "./tools/baseline.sh",
        "source_commits": [],
        "add_only": True,
    },
    "engines": spec["engines"],
    "checks": checks,
    "notes": spec["notes"],
    "not_applicable": na,
}
json.dump(m, open(os.path.join(root, "MANIFEST.json"), "w"), indent=1, ensure_ascii=False)
print("claimed", sorted(claimed), "not_applicable", [x["property_id"] for x in na])
